"""Runner: shards a check over worker subprocesses, merges what the monitors observed, decides
held / violated / inconclusive, writes evidence and replay files.

A check module (checks/cXX.py) provides:
    PROPERTY, LEVEL, RULE, ASSUMPTIONS, REQUIRED (counter names that must be > 0 for "held")
    plan(tier, seed) -> list of JSON-able shard parameter dicts
    run_shard(params, ctx)           # drives the real code, reports through ctx (vlib.runner.Ctx)
    replay(witness, ctx)             # re-runs one witness
"""

from __future__ import annotations

import hashlib
import importlib
import json
import os
import subprocess
import sys
import time
from typing import Any

ROOT = os.path.dirname(os.path.dirname(os.path.abspath(__file__)))
PY = "/venv/bin/python"
REPO_SRC = os.environ.get("VERIF_REPO_SRC") or "/repo/src"  # VERIF_REPO_SRC: development only (mutant runs)
GUARD = "EASYNETWORK_VERIF"

MAX_SIGS = 120_000  # signatures kept per shard (distinct counting is conservative beyond that)
MAX_VIOL_PER_KEY = 5


def jdefault(o: Any) -> Any:
    if isinstance(o, (bytes, bytearray, memoryview)):
        return {"hex": bytes(o).hex()}
    if isinstance(o, (set, frozenset)):
        return sorted(o, key=repr)
    if isinstance(o, tuple):
        return list(o)
    return repr(o)


def sig_of(*parts: Any) -> str:
    h = hashlib.blake2b(digest_size=8)
    for p in parts:
        if isinstance(p, (bytes, bytearray, memoryview)):
            h.update(bytes(p))
        else:
            h.update(repr(p).encode("utf-8", "surrogatepass"))
        h.update(b"\0")
    return h.hexdigest()


HANGS = 0  # CPU-budget trips in this process


class HangDetected(BaseException):
    """raised inside a case by the CPU-time guard (user CPU time of this process, not wall time)"""


class cpu_guard:
    """with cpu_guard(20): ...  -> HangDetected if the block burns more than N seconds of user CPU time."""

    def __init__(self, seconds: float) -> None:
        self.seconds = seconds

    def _fire(self, signum, frame):  # noqa: ANN001
        global HANGS
        HANGS += 1
        raise HangDetected(f"more than {self.seconds}s of CPU time in one case")

    def __enter__(self):
        import signal

        self._old = signal.signal(signal.SIGVTALRM, self._fire)
        signal.setitimer(signal.ITIMER_VIRTUAL, self.seconds)
        return self

    def __exit__(self, *exc):
        import signal

        signal.setitimer(signal.ITIMER_VIRTUAL, 0)
        signal.signal(signal.SIGVTALRM, self._old)
        return False


class Ctx:
    """What one shard observed."""

    def __init__(self, params: dict | None = None) -> None:
        self.params = params or {}
        self.evaluations = 0
        self.sigs: set[str] = set()
        self.sig_overflow = 0
        self.counters: dict[str, int] = {}
        self.violations: list[dict] = []
        self._viol_per_key: dict[str, int] = {}
        self.viol_total = 0
        self.viol_new = 0  # violations whose key is not a listed known finding: only these end a shard early
        try:
            self._known_keys = {f["key"] for f in load_known().get("findings", [])}
        except Exception:  # noqa: BLE001
            self._known_keys = set()
        self.samples: list[Any] = []
        self.inconclusive: list[str] = []
        self.notes: dict[str, Any] = {}

    # -- cases
    def case(self, nontrivial: bool, *sig_parts: Any) -> None:
        self.evaluations += 1
        if nontrivial:
            if len(self.sigs) < MAX_SIGS:
                self.sigs.add(sig_of(*sig_parts))
            else:
                self.sig_overflow += 1

    def count(self, name: str, n: int = 1) -> None:
        self.counters[name] = self.counters.get(name, 0) + n

    def peak(self, name: str, value: int) -> None:
        if value > self.counters.get(name, 0):
            self.counters[name] = value

    def sample(self, obj: Any, limit: int = 3) -> None:
        if len(self.samples) < limit:
            self.samples.append(obj)

    def violation(self, key: str, what: str, witness: Any) -> None:
        self.viol_total += 1
        if key not in self._known_keys:
            self.viol_new += 1
        n = self._viol_per_key.get(key, 0)
        self._viol_per_key[key] = n + 1
        if n < MAX_VIOL_PER_KEY:
            self.violations.append({"key": key, "what": what, "witness": witness})

    def should_stop(self, cap: int = 200) -> bool:
        """stop a shard early: enough violations were recorded, or the CPU guard tripped 3 times (each costs its budget)"""
        return self.viol_new > cap or HANGS >= 3

    def inconclusive_because(self, reason: str) -> None:
        if len(self.inconclusive) < 20:
            self.inconclusive.append(reason)

    def result(self) -> dict:
        return {
            "evaluations": self.evaluations,
            "sigs": sorted(self.sigs),
            "sig_overflow": self.sig_overflow,
            "counters": self.counters,
            "violations": self.violations,
            "viol_total": self.viol_total,
            "viol_per_key": self._viol_per_key,
            "samples": self.samples,
            "inconclusive": self.inconclusive,
            "notes": self.notes,
        }


def load_check(pid: str):
    sys.path.insert(0, ROOT) if ROOT not in sys.path else None
    return importlib.import_module(f"checks.{pid.lower()}")


def load_known() -> dict:
    path = os.path.join(ROOT, "known_findings.json")
    try:
        with open(path) as f:
            return json.load(f)
    except FileNotFoundError:
        return {"findings": [], "fixed": []}


def child_env() -> dict:
    env = dict(os.environ)
    pp = [ROOT, REPO_SRC]
    if env.get("PYTHONPATH"):
        pp.append(env["PYTHONPATH"])
    env["PYTHONPATH"] = os.pathsep.join(pp)
    env[GUARD] = "1"
    env.setdefault("PYTHONHASHSEED", "0")
    env["PYTHONDONTWRITEBYTECODE"] = "1"
    env["PYTHONUNBUFFERED"] = "1"
    return env


def _run_workers(pid: str, shards: list[dict], workdir: str, jobs: int, watchdog: float) -> tuple[list[dict], list[str]]:
    """Run every shard in its own subprocess; returns (results, inconclusive reasons)."""
    env = child_env()
    results: list[dict] = []
    problems: list[str] = []
    pending = list(enumerate(shards))
    running: dict[int, tuple[subprocess.Popen, float, str, str, int]] = {}
    retried: set[int] = set()

    def launch(i: int, params: dict, attempt: int) -> None:
        pfile = os.path.join(workdir, f"shard{i}.in.json")
        ofile = os.path.join(workdir, f"shard{i}.out.json")
        with open(pfile, "w") as f:
            json.dump(params, f)
        if os.path.exists(ofile):
            os.unlink(ofile)
        logf = open(os.path.join(workdir, f"shard{i}.log"), "wb")
        p = subprocess.Popen(
            [PY, "-X", "faulthandler", "-m", "vlib.worker", pid, pfile, ofile, str(int(watchdog))],
            cwd=ROOT,
            env=env,
            stdout=logf,
            stderr=subprocess.STDOUT,
        )
        logf.close()
        running[i] = (p, time.monotonic(), pfile, ofile, attempt)

    while pending or running:
        # a retried shard runs alone
        while pending and len(running) < jobs:
            i, params = pending.pop(0)
            launch(i, params, 1 if i in retried else 0)
        time.sleep(0.02)
        for i in list(running):
            p, t0, pfile, ofile, attempt = running[i]
            rc = p.poll()
            if rc is None:
                if time.monotonic() - t0 > watchdog + 30:
                    p.kill()
                    p.wait()
                    rc = -9
                else:
                    continue
            del running[i]
            ok = False
            if rc == 0 and os.path.exists(ofile):
                try:
                    with open(ofile) as f:
                        results.append(json.load(f))
                    ok = True
                except Exception as exc:  # pragma: no cover
                    problems.append(f"shard {i}: unreadable result ({exc})")
                    ok = True
            if not ok:
                if i not in retried:
                    retried.add(i)
                    # wait for the others, then re-run alone
                    pending.append((i, shards[i]))
                else:
                    tail = b""
                    try:
                        with open(os.path.join(workdir, f"shard{i}.log"), "rb") as f:
                            tail = f.read()[-1500:]
                    except OSError:
                        pass
                    problems.append(f"shard {i}: worker rc={rc} (watchdog/crash), log tail: {tail.decode('utf-8', 'replace')}")
    return results, problems


def merge(results: list[dict]) -> dict:
    m: dict[str, Any] = {
        "evaluations": 0,
        "sigs": set(),
        "sig_overflow": 0,
        "counters": {},
        "violations": [],
        "viol_total": 0,
        "viol_per_key": {},
        "samples": [],
        "inconclusive": [],
        "notes": {},
    }
    for r in results:
        m["evaluations"] += r["evaluations"]
        m["sigs"].update(r["sigs"])
        m["sig_overflow"] += r["sig_overflow"]
        for k, v in r["counters"].items():
            if k.startswith("max_"):
                m["counters"][k] = max(m["counters"].get(k, 0), v)
            else:
                m["counters"][k] = m["counters"].get(k, 0) + v
        m["violations"].extend(r["violations"])
        m["viol_total"] += r["viol_total"]
        for k, v in r["viol_per_key"].items():
            m["viol_per_key"][k] = m["viol_per_key"].get(k, 0) + v
        if len(m["samples"]) < 6:
            m["samples"].extend(r["samples"][: 6 - len(m["samples"])])
        m["inconclusive"].extend(r["inconclusive"])
        for k, v in r.get("notes", {}).items():
            m["notes"].setdefault(k, v)
    return m


def write_evidence(mod, tier: str, seed: int, merged: dict, wall: float, verdict: str, known_hit: list[str], new_keys: list[str]) -> str:
    cov = {
        "evaluations": merged["evaluations"],
        "distinct_nontrivial": len(merged["sigs"]),
        "rule": mod.RULE
        + (
            f" (signatures are capped per shard; {merged['sig_overflow']} further non-trivial cases were executed but not"
            " counted as distinct)"
            if merged["sig_overflow"]
            else ""
        ),
        "samples": merged["samples"] or ["<no sample recorded>"],
        "monitor_counters": dict(sorted(merged["counters"].items())),
        "required_counters": list(getattr(mod, "REQUIRED", [])),
        "verdict": verdict,
        "known_findings_hit": known_hit,
        "new_violation_keys": new_keys,
        "violation_counts_by_key": merged["viol_per_key"],
        "inconclusive_reasons": merged["inconclusive"][:10],
        "exhaustive": bool(getattr(mod, "EXHAUSTIVE", {}).get(tier, False)) if isinstance(getattr(mod, "EXHAUSTIVE", None), dict) else False,
    }
    cov.update(merged.get("notes", {}))
    ev = {
        "property_id": mod.PROPERTY,
        "tier": tier,
        "seed": seed,
        "level": mod.LEVEL,
        "coverage": cov,
        "assumptions": list(mod.ASSUMPTIONS),
        "wall_s": round(wall, 3),
        "violations": sum(v for k, v in merged["viol_per_key"].items() if k in new_keys),
    }
    evdir = os.path.join(ROOT, ".work", "evidence-scratch") if os.environ.get("VERIF_NO_EVIDENCE") else os.path.join(ROOT, "evidence")
    os.makedirs(evdir, exist_ok=True)
    path = os.path.join(evdir, f"{mod.PROPERTY}.json")
    tmp = path + ".tmp"
    with open(tmp, "w") as f:
        json.dump(ev, f, indent=1, default=jdefault)
        f.write("\n")
    os.replace(tmp, path)
    return path


def write_replay(pid: str, v: dict) -> str:
    os.makedirs(os.path.join(ROOT, "replays"), exist_ok=True)
    v = dict(v, repo_src=REPO_SRC)
    blob = json.dumps(v, sort_keys=True, default=jdefault)
    h = hashlib.sha1(blob.encode()).hexdigest()[:12]
    path = os.path.join(ROOT, "replays", f"{pid}-{h}.json")
    with open(path, "w") as f:
        json.dump({"property": pid, **v}, f, indent=1, default=jdefault)
        f.write("\n")
    return path


def main(argv: list[str]) -> int:
    import argparse

    ap = argparse.ArgumentParser(prog="check")
    ap.add_argument("property")
    ap.add_argument("--tier", default=os.environ.get("VERIF_TIER") or "quick", choices=["quick", "thorough"])
    ap.add_argument("--seed", type=int, default=None)
    ap.add_argument("--replay", default=None)
    ap.add_argument("--jobs", type=int, default=int(os.environ.get("VERIF_JOBS", "0")) or min(16, os.cpu_count() or 1))
    ap.add_argument("--inproc", action="store_true", help="run shards in this process (debugging)")
    args = ap.parse_args(argv)
    pid = args.property.upper()
    seed = args.seed if args.seed is not None else int(os.environ.get("VERIF_SEED", "0") or 0)

    if args.replay:
        env = child_env()
        rc = subprocess.run([PY, "-m", "vlib.worker", pid, "--replay", args.replay], cwd=ROOT, env=env).returncode
        return rc

    for p in (ROOT, REPO_SRC):
        if p not in sys.path:
            sys.path.insert(0, p)
    os.environ[GUARD] = "1"
    mod = load_check(pid)
    t0 = time.monotonic()
    shards = mod.plan(args.tier, seed)
    for s in shards:
        s.setdefault("tier", args.tier)
    workdir = os.path.join(ROOT, ".work", pid)
    os.makedirs(workdir, exist_ok=True)
    watchdog = float(getattr(mod, "WATCHDOG", {}).get(args.tier, 900 if args.tier == "quick" else 5400))

    if args.inproc:
        results, problems = [], []
        for s in shards:
            ctx = Ctx(s)
            mod.run_shard(s, ctx)
            results.append(json.loads(json.dumps(ctx.result(), default=jdefault)))
    else:
        results, problems = _run_workers(pid, shards, workdir, args.jobs, watchdog)
    merged = merge(results)
    merged["inconclusive"].extend(problems)

    known = {f["key"]: f for f in load_known().get("findings", []) if f.get("property") == pid}
    known_hit: list[str] = []
    new: dict[str, dict] = {}
    for v in merged["violations"]:
        if v["key"] in known:
            if v["key"] not in known_hit:
                known_hit.append(v["key"])
        elif v["key"] not in new:
            new[v["key"]] = v

    missing = [c for c in getattr(mod, "REQUIRED", []) if merged["counters"].get(c, 0) <= 0]
    if missing:
        merged["inconclusive"].append("required monitor counters never reached: " + ", ".join(missing))
    if merged["evaluations"] == 0:
        merged["inconclusive"].append("no case was executed")

    if new:
        verdict = "violated"
    elif merged["inconclusive"]:
        verdict = "inconclusive"
    else:
        verdict = "held-on-observed"
    wall = time.monotonic() - t0
    write_evidence(mod, args.tier, seed, merged, wall, verdict, known_hit, sorted(new))

    print(
        f"[{pid}] tier={args.tier} seed={seed} shards={len(shards)} evaluations={merged['evaluations']} "
        f"distinct_nontrivial={len(merged['sigs'])} wall={wall:.1f}s"
    )
    for k in sorted(merged["counters"]):
        print(f"   counter {k} = {merged['counters'][k]}")
    for k in known_hit:
        print(f"KNOWN-FINDING: property={pid} {k}: {known[k].get('what', '')} (seen {merged['viol_per_key'].get(k, 0)}x)")
    if new:
        for k, v in sorted(new.items()):
            path = write_replay(pid, v)
            print(f"   {k}: {v['what']} ({merged['viol_per_key'].get(k, 0)}x)")
            print(f"VIOLATION property={pid} replay={path}")
        return 1
    if merged["inconclusive"]:
        for r in merged["inconclusive"][:10]:
            print(f"INCONCLUSIVE property={pid} reason={r}")
        return 2
    print(f"[{pid}] held on everything observed")
    return 0


if __name__ == "__main__":
    sys.exit(main(sys.argv[1:]))
