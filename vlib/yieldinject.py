"""Thread schedule perturbation: a sys.monitoring LINE callback restricted to easynetwork code objects yields the GIL
(time.sleep(0)) or sleeps 50-500 microseconds with a seeded probability. CPython threads can be preempted at any bytecode
boundary, so every injected switch is realizable. Also keeps a rolling hash of (thread, code, line) at the sampled points:
the number of distinct hashes is the "distinct interleavings observed" figure."""

from __future__ import annotations

import random
import sys
import threading
import time

TOOL = 4  # sys.monitoring tool id (0-5); 4 is not reserved


class YieldInjector:
    def __init__(self, seed: int, p_yield: float = 0.05, p_sleep: float = 0.01, only: str = "easynetwork") -> None:
        self.rng = random.Random(seed)
        self.p_yield, self.p_sleep = p_yield, p_sleep
        self.only = only
        self.lock = threading.Lock()
        self.hash = 0
        self.points = 0
        self.switches = 0
        self.active = False

    def _line(self, code, line):  # noqa: ANN001
        if self.only not in code.co_filename:
            return sys.monitoring.DISABLE
        with self.lock:
            r = self.rng.random()
            self.points += 1
            if r < self.p_yield + self.p_sleep:
                self.switches += 1
                self.hash = hash((self.hash, threading.get_ident() % 97, code.co_name, line)) & 0xFFFFFFFFFFFF
        if r < self.p_sleep:
            time.sleep(self.rng.choice([0.00005, 0.0002, 0.0005]))
        elif r < self.p_yield + self.p_sleep:
            time.sleep(0)
        return None

    def __enter__(self):
        mon = sys.monitoring
        mon.use_tool_id(TOOL, "verif-yield")
        mon.register_callback(TOOL, mon.events.LINE, self._line)
        mon.set_events(TOOL, mon.events.LINE)
        self.active = True
        return self

    def __exit__(self, *a):
        mon = sys.monitoring
        mon.set_events(TOOL, 0)
        mon.register_callback(TOOL, mon.events.LINE, None)
        mon.free_tool_id(TOOL)
        mon.restart_events()
        self.active = False
        return False
