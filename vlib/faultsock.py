"""Fault-scripted socket: a real socket (one end of a socketpair) whose send/sendmsg/recv results follow a script.

Script entries for writes:  "eagain" | "eintr" | ("partial", n) | "full" | "zero" | "reset" | "epipe"
When the script is exhausted every call is "full". Calls without progress are counted; more than `step_budget`
raise SpinDetected (a BaseException, so no library handler can swallow it): non-termination becomes a verdict.
"""

from __future__ import annotations

import errno
import socket
from typing import Any, Iterable


class SpinDetected(BaseException):
    pass


class FaultySocket(socket.socket):
    def __init__(self, *a: Any, **kw: Any) -> None:
        super().__init__(*a, **kw)
        self.wscript: list = []
        self.rscript: list = []
        self.calls = {"send": 0, "sendmsg": 0, "recv": 0, "recv_into": 0}
        self.no_progress = 0
        self.step_budget = 1000
        self.accepted = 0  # bytes accepted by the "kernel"
        self.log: list = []

    @classmethod
    def pair(cls) -> tuple["FaultySocket", socket.socket]:
        a, b = socket.socketpair()
        fs = cls(a.family, a.type, a.proto, fileno=a.detach())
        return fs, b

    # ---- writes
    def _next_w(self) -> Any:
        return self.wscript.pop(0) if self.wscript else "full"

    def _tick(self, progressed: bool) -> None:
        if progressed:
            self.no_progress = 0
        else:
            self.no_progress += 1
            if self.no_progress > self.step_budget:
                raise SpinDetected(f"{self.no_progress} consecutive socket calls without progress")

    def _apply(self, data: bytes, what: str) -> int:
        act = self._next_w()
        self.log.append((what, len(data), act))
        if act == "eagain":
            self._tick(False)
            raise BlockingIOError(errno.EAGAIN, "scripted EAGAIN")
        if act == "eintr":
            self._tick(False)
            raise InterruptedError(errno.EINTR, "scripted EINTR")
        if act == "reset":
            self._tick(False)
            raise ConnectionResetError(errno.ECONNRESET, "scripted ECONNRESET")
        if act == "epipe":
            self._tick(False)
            raise BrokenPipeError(errno.EPIPE, "scripted EPIPE")
        if act == "zero":
            n = 0
        elif act == "full":
            n = len(data)
        else:
            n = min(len(data), act[1])
        if n:
            sent = super().send(data[:n])
            assert sent == n, "kernel buffer full in the harness (payload too large)"
            self.accepted += n
        self._tick(n > 0)
        return n

    def send(self, data: Any, flags: int = 0) -> int:  # type: ignore[override]
        self.calls["send"] += 1
        return self._apply(bytes(memoryview(data)), "send")

    def sendmsg(self, buffers: Iterable[Any], *a: Any) -> int:  # type: ignore[override]
        self.calls["sendmsg"] += 1
        data = b"".join(bytes(memoryview(b)) for b in buffers)
        return self._apply(data, "sendmsg")


class NoSendmsgSocket(FaultySocket):
    @property
    def sendmsg(self):  # type: ignore[override]
        raise AttributeError("sendmsg")
