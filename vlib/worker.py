"""Worker process: runs one shard (or one replay) of a check and writes its observations as JSON."""

from __future__ import annotations

import faulthandler
import json
import os
import sys

from vlib import runner


def main(argv: list[str]) -> int:
    pid = argv[0]
    mod = runner.load_check(pid)
    if argv[1] == "--replay":
        with open(argv[2]) as f:
            rec = json.load(f)
        ctx = runner.Ctx({})
        mod.replay(rec["witness"], ctx)
        known = {f["key"] for f in runner.load_known().get("findings", []) if f.get("property") == pid}
        rc = 0
        for v in ctx.violations:
            if v["key"] in known:
                print(f"KNOWN-FINDING: property={pid} {v['key']}: {v['what']}")
            else:
                print(f"   {v['key']}: {v['what']}")
                print(f"VIOLATION property={pid} replay={argv[2]}")
                rc = 1
        if not ctx.violations:
            print(f"[{pid}] replay did not reproduce a violation")
        return rc
    pfile, ofile, watchdog = argv[1], argv[2], int(argv[3])
    faulthandler.dump_traceback_later(watchdog, exit=True)
    with open(pfile) as f:
        params = json.load(f)
    ctx = runner.Ctx(params)
    mod.run_shard(params, ctx)
    tmp = ofile + ".tmp"
    with open(tmp, "w") as f:
        json.dump(ctx.result(), f, default=runner.jdefault)
    os.replace(tmp, ofile)
    faulthandler.cancel_dump_traceback_later()
    return 0


if __name__ == "__main__":
    sys.exit(main(sys.argv[1:]))
