"""Harness-side monitor on the asyncio stream socket adapter's protocol (StreamReaderBufferedProtocol).

Records, per scenario, the two shapes in which bytes written into a caller-supplied buffer are dropped because the
waiting task was cancelled in the same loop iteration as the read event:
  "cancel-then-read": buffer_updated() finds data in the external buffer while the read waiter is already cancelled;
  "read-then-cancel": the waiter has a result (n bytes in the caller's buffer) but the task is resumed with CancelledError.
Used (a) by C10 as the observation of which orders were produced, (b) by other checks to attribute a lost-data
violation to this known mechanism and to nothing else.
"""

from __future__ import annotations

import asyncio
from typing import Any

from easynetwork.lowlevel.api_async.backend._asyncio.stream import socket as _sock

EVENTS: list[tuple] = []
DELIVERED = [0]  # bytes handed by the loop to the protocol so far (all deliveries, in order) in this scenario
LOST_RANGES: list[tuple[int, int]] = []  # (stream offset, nbytes) of deliveries dropped by the known mechanism
_installed = False
_P = "_StreamReaderBufferedProtocol__"
_PENDING_EXTERNAL: dict[int, tuple] = {}
_ORDER_SEEN: dict[int, bool] = {}


def reset() -> None:
    EVENTS.clear()
    DELIVERED[0] = 0
    LOST_RANGES.clear()


def reduce_stream(stream: bytes) -> bytes:
    """the byte stream as the layers above the protocol must have seen it if the ONLY thing that went wrong is the known
    mechanism: the original stream minus the byte ranges of the dropped deliveries (single connection per scenario)"""
    out = bytearray()
    pos = 0
    for off, n in sorted(LOST_RANGES):
        out += stream[pos:off]
        pos = max(pos, off + n)
    out += stream[pos:]
    return bytes(out)


def lost_events() -> list[tuple]:
    return [e for e in EVENTS if e[0] in ("cancel-then-read", "read-then-cancel")]


def install() -> None:
    global _installed
    if _installed:
        return
    _installed = True
    cls = _sock.StreamReaderBufferedProtocol
    orig_updated = cls.buffer_updated
    orig_wait = cls._wait_for_data
    orig_get_buffer = cls.get_buffer

    def get_buffer(self, sizehint: int):
        # the order "reader cancelled, then read event, before the reader's task ran" is observed here, whether or not the
        # protocol then loses the bytes (it did before the repair: it handed out the cancelled reader's buffer)
        ext = getattr(self, _P + "external_buffer_view", None)
        waiter = getattr(self, _P + "read_waiter", None)
        if ext is not None and (waiter is None or waiter.done()):
            _ORDER_SEEN[id(self)] = True
        return orig_get_buffer(self, sizehint)

    def buffer_updated(self, nbytes: int) -> None:
        ext = getattr(self, _P + "external_buffer_view", None)
        waiter = getattr(self, _P + "read_waiter", None)
        off = DELIVERED[0]
        DELIVERED[0] += nbytes
        order = _ORDER_SEEN.pop(id(self), False)
        if ext is not None:
            if waiter is None or waiter.done():
                EVENTS.append(("cancel-then-read", nbytes, off))
                LOST_RANGES.append((off, nbytes))
            else:
                EVENTS.append(("external-delivery", nbytes, off))
                if waiter is not None:
                    _PENDING_EXTERNAL[id(waiter)] = (off, nbytes, getattr(self, _P + "buffer_nbytes_written", 0))
        elif order:
            EVENTS.append(("cancel-then-read", nbytes, off))  # order produced, bytes kept in the protocol's own buffer
        else:
            EVENTS.append(("internal-delivery", nbytes, off))
        return orig_updated(self, nbytes)

    async def _wait_for_data(self, requester: str, external_buffer: Any):
        waiter_box: list = []
        task = asyncio.current_task()
        c0 = task.cancelling() if task is not None else 0
        try:
            coro = orig_wait(self, requester, external_buffer)
            # observe the waiter created by the original coroutine on its first step
            res = await _Watch(coro, self, waiter_box)
            if task is not None and task.cancelling() > c0:
                # task.cancel() was called while the receive was waiting (asyncio then throws CancelledError into the step
                # that resumes it, whatever the state of the awaited future) and yet the receive returned normally
                EVENTS.append(("completed-despite-cancel", requester))
                EVENTS.append(("read-then-cancel", 0, None))  # the order was produced all the same (nothing lost)
            return res
        except asyncio.CancelledError:
            w = waiter_box[0] if waiter_box else None
            if w is not None and w.done() and not w.cancelled() and w.exception() is None and w.result():
                off, n, had = _PENDING_EXTERNAL.pop(id(w), (None, w.result(), 0))
                EVENTS.append(("read-then-cancel", w.result(), off))
                kept = getattr(self, _P + "buffer_nbytes_written", 0) >= had + n  # taken back into the protocol's own buffer
                if off is not None and not kept:
                    LOST_RANGES.append((off, n))
            else:
                EVENTS.append(("cancelled-receive", 0))
            raise

    cls.get_buffer = get_buffer  # type: ignore[method-assign]
    cls.buffer_updated = buffer_updated  # type: ignore[method-assign]
    cls._wait_for_data = _wait_for_data  # type: ignore[method-assign]


class _Watch:
    """awaits coro; after its first step, captures the protocol's read waiter"""

    def __init__(self, coro, proto, box) -> None:
        self.coro, self.proto, self.box = coro, proto, box

    def __await__(self):
        it = self.coro.__await__()
        first = True
        send_val = None
        exc = None
        while True:
            try:
                if exc is not None:
                    y = it.throw(exc)
                else:
                    y = it.send(send_val)
            except StopIteration as stop:
                return stop.value
            if first:
                first = False
                w = getattr(self.proto, _P + "read_waiter", None)
                if w is not None:
                    self.box.append(w)
            exc = None
            try:
                send_val = yield y
            except BaseException as e:  # noqa: BLE001
                exc = e
                send_val = None
