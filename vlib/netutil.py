"""Loopback socket helpers for the checks.

High-volume runs create tens of thousands of short TCP connections; with one loopback address the ephemeral ports end up in
TIME_WAIT and bind() fails with EADDRINUSE. Every pair therefore uses its own random 127.x.y.z addresses (Linux routes the whole
127/8 to the loopback interface), which makes the (address, port) space practically unbounded."""

from __future__ import annotations

import os
import random
import socket

_rng = random.Random(os.getpid() * 7919 + 17)


def rand_loopback() -> str:
    return f"127.{_rng.randint(1, 250)}.{_rng.randint(0, 250)}.{_rng.randint(2, 250)}"


def tcp_pair(*, sndbuf: int | None = None, rcvbuf: int | None = None, nodelay: bool = True) -> tuple[socket.socket, socket.socket]:
    """(client side, accepted side) of a fresh loopback TCP connection"""
    for _ in range(20):
        srv = socket.socket(socket.AF_INET, socket.SOCK_STREAM)
        c = socket.socket(socket.AF_INET, socket.SOCK_STREAM)
        try:
            srv.setsockopt(socket.SOL_SOCKET, socket.SO_REUSEADDR, 1)
            if rcvbuf is not None:
                srv.setsockopt(socket.SOL_SOCKET, socket.SO_RCVBUF, rcvbuf)
            srv.bind((rand_loopback(), 0))
            srv.listen(1)
            if sndbuf is not None:
                c.setsockopt(socket.SOL_SOCKET, socket.SO_SNDBUF, sndbuf)
            c.bind((rand_loopback(), 0))
            c.connect(srv.getsockname())
            s, _ = srv.accept()
        except OSError:
            srv.close()
            c.close()
            continue
        srv.close()
        if nodelay:
            for x in (c, s):
                x.setsockopt(socket.IPPROTO_TCP, socket.TCP_NODELAY, 1)
        return c, s
    raise OSError("could not create a loopback TCP pair")


def udp_pair() -> tuple[socket.socket, socket.socket]:
    for _ in range(20):
        a = socket.socket(socket.AF_INET, socket.SOCK_DGRAM)
        b = socket.socket(socket.AF_INET, socket.SOCK_DGRAM)
        try:
            a.bind((rand_loopback(), 0))
            b.bind((rand_loopback(), 0))
            a.connect(b.getsockname())
            b.connect(a.getsockname())
            return a, b
        except OSError:
            a.close()
            b.close()
    raise OSError("could not create a loopback UDP pair")
