"""Virtual clock + virtual selector for the blocking (selector based) transports.

The library measures time through `easynetwork.lowlevel._utils.time.perf_counter` (ElapsedTime) and waits through
the transport's `selector_factory`. Both are substituted: time is a counter, and `select(timeout)` *runs the world*:
it asks the scenario what happens next, advances the clock to min(next event, now + timeout), lets the scenario
perform the peer's action, and reports readiness. Everything is single-threaded and replayable.
"""

from __future__ import annotations

import contextlib
import math
import selectors
import time as _real_time
from typing import Any, Callable


class VirtualClock:
    def __init__(self) -> None:
        self.now = 1000.0

    def perf_counter(self) -> float:
        return self.now

    def monotonic(self) -> float:
        return self.now

    def advance(self, dt: float) -> None:
        assert dt >= 0
        self.now += dt


class _TimeShim:
    """stands in for the `time` module inside easynetwork.lowlevel._utils"""

    def __init__(self, clock: VirtualClock) -> None:
        self._clock = clock

    def perf_counter(self) -> float:
        return self._clock.now

    def monotonic(self) -> float:
        return self._clock.now

    def __getattr__(self, name: str) -> Any:
        return getattr(_real_time, name)


@contextlib.contextmanager
def virtual_time(clock: VirtualClock):
    from easynetwork.lowlevel import _utils

    old = _utils.time
    _utils.time = _TimeShim(clock)  # type: ignore[assignment]
    try:
        yield clock
    finally:
        _utils.time = old


class World:
    """Scenario interface: on_select(fileno, event, timeout) -> (ready: bool, waited: float).
    The default world is driven by a list of (delay, action) events: select() waits until the next event
    whose action makes the fd ready."""

    def __init__(self, clock: VirtualClock) -> None:
        self.clock = clock
        self.select_calls: list[tuple[int, float | None]] = []
        self.positive_waits_with_zero_timeout = 0

    def on_select(self, fileno: int, event: int, timeout: float | None) -> bool:
        raise NotImplementedError


class VirtualSelector:
    def __init__(self, world: World) -> None:
        self.world = world
        self._reg: list[tuple[int, int]] = []

    def __enter__(self):
        return self

    def __exit__(self, *a):
        self.close()

    def close(self) -> None:
        self._reg.clear()

    def register(self, fileobj: Any, events: int, data: Any = None):
        fd = fileobj if isinstance(fileobj, int) else fileobj.fileno()
        if fd < 0:
            raise ValueError("bad fd")
        self._reg.append((fd, events))
        return selectors.SelectorKey(fileobj, fd, events, data)

    def select(self, timeout: float | None = None):
        fd, ev = self._reg[0]
        self.world.select_calls.append((ev, timeout))
        if timeout is not None and timeout < 0:
            timeout = 0
        ready = self.world.on_select(fd, ev, timeout)
        if ready:
            return [(selectors.SelectorKey(fd, fd, ev, None), ev)]
        return []


def selector_factory(world: World) -> Callable[[], VirtualSelector]:
    return lambda: VirtualSelector(world)
