"""Virtual-time asyncio event loop.

SelectorEventLoop whose time() is a counter and whose selector never sleeps: real file descriptors are polled with
timeout 0 and, when nothing is ready, the clock *jumps* by the timeout asyncio asked for.

* quiescence = deadlock: the loop asks to block forever (no timers, no ready handles, no ready fds) -> three empty
  polls 1 ms apart (to let the kernel deliver loopback data), then Quiescent is raised out of run_until_complete.
* busy-wait compensation: after 50 consecutive zero-timeout polls the clock advances 1 ms per iteration (a cancelled
  scope around a shielded wait re-arms a call_soon every turn, which would otherwise freeze virtual time).
* io_expected hint: while the scenario reports bytes in flight through the kernel, a timer jump is preceded by a real
  wait (up to io_grace s) for fd readiness, so that a delayed window update is never read as "stranded for ever".
* iteration counter + two injection slots per iteration: before_io(k, fn) runs at the head of iteration k (before that
  iteration's I/O callbacks), after_io(k, fn) runs after them (zero-delay timer). The ready queue is never permuted.
"""

from __future__ import annotations

import asyncio
import selectors
import time as _time
from typing import Any, Callable, Coroutine


class Quiescent(BaseException):
    """the loop would block forever while the scenario still has pending operations"""


class Spinning(BaseException):
    """the loop ran more iterations than the scenario's logical step budget (a callback re-arms itself for ever)"""


class _VSelector:
    def __init__(self, loop: "VirtualLoop") -> None:
        self._sel = selectors.DefaultSelector()
        self._loop = loop

    def register(self, fileobj, events, data=None):
        return self._sel.register(fileobj, events, data)

    def unregister(self, fileobj):
        return self._sel.unregister(fileobj)

    def modify(self, fileobj, events, data=None):
        return self._sel.modify(fileobj, events, data)

    def get_key(self, fileobj):
        return self._sel.get_key(fileobj)

    def get_map(self):
        return self._sel.get_map()

    def close(self):
        self._sel.close()

    def select(self, timeout=None):
        loop = self._loop
        loop.polls += 1
        events = self._sel.select(0)
        if events:
            loop._zero_polls = 0
            return events
        if loop._before or loop._after:
            # injections are armed for coming iterations: just let the iteration counter advance (no time passes)
            return []
        if timeout is None:
            # would block forever: give the kernel a moment (loopback delivery is synchronous, but be safe)
            for _ in range(3):
                events = self._sel.select(0.001)
                if events:
                    return events
            if loop.allow_block_on_threads and loop.pending_thread_work():
                return self._sel.select(0.05)
            hint = loop.io_expected
            if hint is not None and hint():
                loop.real_waits += 1
                events = self._sel.select(loop.io_grace)
                if events:
                    return events
                loop.real_stalls += 1
                if loop.real_stalls >= 3:
                    loop.io_expected = None  # the hint is not borne out by the kernel: stop paying for it
            raise Quiescent(f"loop quiescent at virtual time {loop._vtime:.3f}, iteration {loop.iteration}")
        if timeout > 0:
            hint = loop.io_expected
            if hint is not None and hint():
                # the scenario says bytes are in flight through the kernel (e.g. a reader draining a socket whose sender is
                # blocked on a tiny window): window updates / delayed ACKs take real milliseconds, which must not be
                # mistaken for "nothing will ever happen" -> wait for real readiness before letting virtual time jump
                loop.real_waits += 1
                events = self._sel.select(loop.io_grace)
                if events:
                    loop._zero_polls = 0
                    return events
                loop.real_stalls += 1
                if loop.real_stalls >= 3:
                    loop.io_expected = None
            elif loop.micro_grace and len(self._sel.get_map()) > 1:
                # real sockets are registered: loopback delivery is synchronous on an idle kernel, but a deferred softirq
                # takes a few real milliseconds -> one short real wait before the clock jumps over in-flight bytes
                events = self._sel.select(loop.micro_grace)
                if events:
                    loop._zero_polls = 0
                    loop.late_deliveries += 1
                    return events
            loop._zero_polls = 0
            loop._vtime += timeout
            loop.jumps += 1
        else:
            loop._zero_polls += 1
            if loop._zero_polls > 50:
                loop._vtime += 0.001
        return []


class VirtualLoop(asyncio.SelectorEventLoop):
    def __init__(self) -> None:
        self._vtime = 0.0
        self._zero_polls = 0
        self.iteration = 0
        self.polls = 0
        self.jumps = 0
        self.allow_block_on_threads = False
        self.io_expected: Callable[[], bool] | None = None  # scenario hint: real kernel I/O is in flight
        self.io_grace = 20.0  # real seconds a jump is postponed while io_expected() holds
        self.real_waits = 0
        self.micro_grace = 0.005  # real seconds waited before any jump while real sockets are registered
        self.late_deliveries = 0
        self.real_stalls = 0
        self.max_iterations: int | None = None  # logical step budget (Spinning is raised beyond it)
        self._before: dict[int, list[Callable[[], Any]]] = {}
        self._after: dict[int, list[Callable[[], Any]]] = {}
        self._every: list[Callable[[int], Any]] = []
        super().__init__(selector=_VSelector(self))  # type: ignore[arg-type]

    def time(self) -> float:
        return self._vtime

    def pending_thread_work(self) -> bool:
        ex = getattr(self, "_default_executor", None)
        return ex is not None and bool(getattr(ex, "_work_queue", None) is not None and (ex._work_queue.qsize() or any(t.is_alive() for t in getattr(ex, "_threads", ()))))

    # ---- injection
    def before_io(self, k: int, fn: Callable[[], Any]) -> None:
        self._before.setdefault(k, []).append(fn)

    def after_io(self, k: int, fn: Callable[[], Any]) -> None:
        self._after.setdefault(k, []).append(fn)

    def every_iteration(self, fn: Callable[[int], Any]) -> None:
        self._every.append(fn)

    def _run_once(self) -> None:  # type: ignore[override]
        self.iteration += 1
        k = self.iteration
        if self.max_iterations is not None and k > self.max_iterations:
            self.max_iterations = None
            raise Spinning(f"event loop still busy after {k} iterations at virtual time {self._vtime:.3f}")
        for fn in self._every:
            fn(k)
        for fn in self._before.pop(k, ()):
            self.call_soon(fn)
        for fn in self._after.pop(k, ()):
            self.call_at(self._vtime, fn)
        super()._run_once()  # type: ignore[misc]


def run(main: Callable[[VirtualLoop], Coroutine[Any, Any, Any]], *, debug: bool = False) -> Any:
    """run main(loop) to completion on a fresh virtual loop; Quiescent propagates. Leftover tasks are cancelled."""
    loop = VirtualLoop()
    asyncio.set_event_loop(loop)
    try:
        from sniffio import thread_local
    except ImportError:  # pragma: no cover
        thread_local = None
    old_name = None
    if thread_local is not None:
        old_name, thread_local.name = thread_local.name, "asyncio"
    try:
        return loop.run_until_complete(main(loop))
    finally:
        try:
            _cancel_all(loop)
            try:
                loop.run_until_complete(loop.shutdown_asyncgens())
            except BaseException:  # noqa: BLE001
                pass
        finally:
            if thread_local is not None:
                thread_local.name = old_name
            asyncio.set_event_loop(None)
            loop.close()


def _cancel_all(loop: VirtualLoop) -> None:
    for _ in range(5):
        tasks = [t for t in asyncio.all_tasks(loop) if not t.done()]
        if not tasks:
            return
        for t in tasks:
            t.cancel()
        try:
            loop.run_until_complete(asyncio.gather(*tasks, return_exceptions=True))
        except BaseException:  # noqa: BLE001
            pass
