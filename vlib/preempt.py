"""Directed preemption: pause whichever thread first reaches a chosen (code object, line) — i.e. *before* that line runs —
run an action there (typically: let another thread perform a call and wait a bounded time for it), then resume.
CPython may switch threads between any two lines, so every schedule produced this way is realizable; this is the systematic
(one preemption per run, every line of the critical functions) counterpart of the random yield injector."""

from __future__ import annotations

import sys
import threading
import types
from typing import Callable

TOOL = 3


def code_objects(func) -> list[types.CodeType]:
    out: list[types.CodeType] = []

    def rec(c: types.CodeType) -> None:
        out.append(c)
        for k in c.co_consts:
            if isinstance(k, types.CodeType):
                rec(k)

    rec(func.__code__)
    return out


def points(funcs) -> list[tuple[str, int]]:
    """every (code name, line) at which a LINE event can fire inside the given functions (nested functions included)"""
    pts: list[tuple[str, int]] = []
    for f in funcs:
        for c in code_objects(f):
            for ln in sorted({x[2] for x in c.co_lines() if x[2]}):
                if (c.co_name, ln) not in pts:
                    pts.append((c.co_name, ln))
    return pts


class PausePoint:
    def __init__(self, funcs, name: str, line: int, action: Callable[[], None], skip: int = 0) -> None:
        """skip: let the line be reached that many times first (a pause inside the n-th turn of a loop)"""
        self.skip = skip
        self.codes = [c for f in funcs for c in code_objects(f) if c.co_name == name]
        self.name, self.line, self.action = name, line, action
        self.armed = False
        self.fired = False
        self.lock = threading.Lock()

    def _line(self, code, line):  # noqa: ANN001
        if line != self.line or not self.armed:
            return None
        with self.lock:
            if self.fired:
                return None
            if self.skip > 0:
                self.skip -= 1
                return None
            self.fired = True
        self.action()
        return None

    def __enter__(self):
        mon = sys.monitoring
        mon.use_tool_id(TOOL, "verif-preempt")
        mon.register_callback(TOOL, mon.events.LINE, self._line)
        for c in self.codes:
            mon.set_local_events(TOOL, c, mon.events.LINE)
        return self

    def __exit__(self, *a):
        mon = sys.monitoring
        for c in self.codes:
            mon.set_local_events(TOOL, c, 0)
        mon.register_callback(TOOL, mon.events.LINE, None)
        mon.free_tool_id(TOOL)
        return False
