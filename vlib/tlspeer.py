"""Independent TLS peer: a stdlib ssl.SSLObject over two MemoryBIOs, never sharing code with the library's TLS layer.

Two drivers:
  * AsyncPeer: an asyncio-side peer talking through a MemStreamTransport (its own recv_into/send_all);
  * PumpedPeer: a step machine over one end of a real socketpair, pumped from inside the virtual selector, for the
    blocking SSLStreamTransport (single-threaded, replayable).
Also: certificate contexts, TLS record header parser.
"""

from __future__ import annotations

import os
import socket
import ssl
from typing import Any

ROOT = os.path.dirname(os.path.dirname(os.path.abspath(__file__)))
CERT = os.path.join(ROOT, "fixtures", "cert.pem")
KEY = os.path.join(ROOT, "fixtures", "key.pem")

_VERS = {"1.2": ssl.TLSVersion.TLSv1_2, "1.3": ssl.TLSVersion.TLSv1_3}


def server_context(version: str = "1.3") -> ssl.SSLContext:
    ctx = ssl.SSLContext(ssl.PROTOCOL_TLS_SERVER)
    ctx.load_cert_chain(CERT, KEY)
    ctx.minimum_version = ctx.maximum_version = _VERS[version]
    try:
        ctx.options &= ~ssl.OP_IGNORE_UNEXPECTED_EOF
    except AttributeError:
        pass
    return ctx


def client_context(version: str = "1.3") -> ssl.SSLContext:
    ctx = ssl.SSLContext(ssl.PROTOCOL_TLS_CLIENT)
    ctx.load_verify_locations(CERT)
    ctx.check_hostname = True
    ctx.minimum_version = ctx.maximum_version = _VERS[version]
    try:
        ctx.options &= ~ssl.OP_IGNORE_UNEXPECTED_EOF
    except AttributeError:
        pass
    return ctx


def parse_records(wire: bytes) -> list[tuple[int, int, int]]:
    """[(content_type, start, end)] for every complete TLS record in wire; a trailing partial record is reported with end > len"""
    out = []
    pos = 0
    while pos + 5 <= len(wire):
        ctype = wire[pos]
        ln = int.from_bytes(wire[pos + 3 : pos + 5], "big")
        out.append((ctype, pos, pos + 5 + ln))
        pos += 5 + ln
    return out


class _Core:
    def __init__(self, ctx: ssl.SSLContext, server_side: bool, hostname: str | None = None) -> None:
        self.inbio = ssl.MemoryBIO()
        self.outbio = ssl.MemoryBIO()
        self.obj = ctx.wrap_bio(self.inbio, self.outbio, server_side=server_side, server_hostname=None if server_side else hostname)
        self.plaintext_in = bytearray()
        self.got_close_notify = False
        self.read_error: BaseException | None = None


class AsyncPeer(_Core):
    """peer side of a memtransport.stream_pair(); every byte it emits goes through transport.send_all"""

    def __init__(self, transport: Any, ctx: ssl.SSLContext, server_side: bool, hostname: str | None = "localhost") -> None:
        super().__init__(ctx, server_side, hostname)
        self.t = transport
        self.sent_marks: dict[str, int] = {}
        self.bytes_out = 0
        self.frag: int | None = None  # fragment size for outgoing ciphertext

    async def _flush(self) -> None:
        """hand pending ciphertext to an ordered background flusher (never blocks: a bounded pipe must not be able to
        stall the peer's reader through the writer)"""
        import asyncio

        data = self.outbio.read()
        if data:
            self.bytes_out += len(data)
            if getattr(self, "_outq", None) is None:
                self._outq = asyncio.Queue()
                self._flusher = asyncio.ensure_future(self._flusher_task())
            self._outq.put_nowait(data)

    async def _flusher_task(self) -> None:
        while True:
            data = await self._outq.get()
            try:
                if self.frag:
                    for i in range(0, len(data), self.frag):
                        await self.t.send_all(data[i : i + self.frag])
                else:
                    await self.t.send_all(data)
            except OSError:
                pass
            finally:
                self._outq.task_done()

    async def drain(self) -> None:
        if getattr(self, "_outq", None) is not None:
            await self._outq.join()

    async def _pump(self, fn, *args):
        """run one SSLObject operation to completion. Task-safe: the SSLObject call itself runs under a lock, waiting for
        network data does not hold it, and only one task at a time reads from the transport (so a reader task and a writer
        task may use the peer concurrently)."""
        import asyncio

        if getattr(self, "_lock", None) is None:
            self._lock = asyncio.Lock()
            self._rlock = asyncio.Lock()
        buf = bytearray(65536)
        while True:
            async with self._lock:
                seen_feeds = getattr(self, "_feeds", 0)
                try:
                    r = fn(*args)
                    want = None
                except ssl.SSLWantReadError:
                    want = "r"
                except ssl.SSLWantWriteError:
                    want = "w"
                await self._flush()
            if want is None:
                return r
            if want == "r":
                async with self._rlock:
                    # somebody else may have fed the BIO while we waited for the read lock: retry the operation first
                    if getattr(self, "_feeds", 0) != seen_feeds:
                        continue
                    n = await self.t.recv_into(buf)
                    async with self._lock:
                        self._feeds = getattr(self, "_feeds", 0) + 1
                        if n == 0:
                            self.inbio.write_eof()
                        else:
                            self.inbio.write(bytes(buf[:n]))

    async def handshake(self) -> None:
        await self._pump(self.obj.do_handshake)
        self.sent_marks["handshake"] = self.bytes_out

    async def write(self, data: bytes) -> None:
        await self._pump(self.obj.write, data)
        self.sent_marks[f"write{len([k for k in self.sent_marks if k.startswith('write')])}"] = self.bytes_out

    async def read_some(self, n: int = 65536) -> bytes:
        """b'' after close_notify; raises SSLEOFError on a ragged end"""
        try:
            data = await self._pump(self.obj.read, n)
        except ssl.SSLZeroReturnError:
            self.got_close_notify = True
            return b""
        if not data:
            self.got_close_notify = True
        self.plaintext_in += data
        return data

    async def read_until_end(self) -> str:
        """returns 'clean' | 'ragged' | 'error:<cls>'"""
        try:
            while True:
                d = await self.read_some()
                if not d:
                    return "clean"
        except ssl.SSLError as exc:
            self.read_error = exc
            if isinstance(exc, ssl.SSLEOFError) or "EOF" in str(exc).upper():
                return "ragged"
            return f"error:{type(exc).__name__}"
        except OSError as exc:
            self.read_error = exc
            return f"error:{type(exc).__name__}"

    async def unwrap(self) -> None:
        """send close_notify (one-way is enough for the reader on the other side)"""
        try:
            self.obj.unwrap()
        except (ssl.SSLWantReadError, ssl.SSLWantWriteError):
            pass
        except ssl.SSLError:
            pass
        await self._flush()
        await self.drain()
        self.sent_marks["close_notify"] = self.bytes_out


class PumpedPeer(_Core):
    """step machine over a real socket, pumped by the harness (virtual selector): steps are
    ('handshake',) ('write', data) ('unwrap',) ('read',) ; output beyond `cut` bytes is dropped and the socket is
    shut down for writing at the cut."""

    def __init__(self, sock: socket.socket, ctx: ssl.SSLContext, server_side: bool, steps: list, hostname: str | None = "localhost", cut: int | None = None, frag: int | None = None) -> None:
        super().__init__(ctx, server_side, hostname)
        self.sock = sock
        self.sock.setblocking(False)
        self.steps = list(steps)
        self.cut = cut
        self.frag = frag
        self.bytes_out = 0
        self.marks: dict[str, int] = {}
        self.out_queue = bytearray()
        self.cut_done = False
        self.peer_eof = False
        self.hs_done = False
        self.nwrites = 0

    def _read_socket(self) -> None:
        try:
            while True:
                d = self.sock.recv(65536)
                if not d:
                    if not self.peer_eof:
                        self.peer_eof = True
                        self.inbio.write_eof()
                    return
                self.inbio.write(d)
        except (BlockingIOError, InterruptedError):
            return
        except OSError:
            if not self.peer_eof:
                self.peer_eof = True
                self.inbio.write_eof()

    def _emit(self, limit: int | None = None) -> int:
        """move outbio -> out_queue -> socket (at most `limit` bytes this pump); returns bytes written to the socket"""
        data = self.outbio.read()
        if data:
            self.out_queue += data
        wrote = 0
        while self.out_queue and not self.cut_done:
            n = len(self.out_queue)
            if limit is not None:
                n = min(n, limit - wrote)
                if n <= 0:
                    break
            if self.cut is not None:
                n = min(n, self.cut - self.bytes_out)
            if n > 0:
                try:
                    sent = self.sock.send(bytes(self.out_queue[:n]))
                except (BlockingIOError, InterruptedError):
                    break
                except OSError:
                    self.cut_done = True
                    break
                del self.out_queue[:sent]
                self.bytes_out += sent
                wrote += sent
            if self.cut is not None and self.bytes_out >= self.cut:
                self.cut_done = True
                try:
                    self.sock.shutdown(socket.SHUT_WR)
                except OSError:
                    pass
                break
        return wrote

    def pump(self, limit: int | None = None) -> int:
        """progress as far as possible; returns number of ciphertext bytes written to the socket"""
        self._read_socket()
        progressed = True
        while progressed and self.steps:
            progressed = False
            st = self.steps[0]
            try:
                if st[0] == "handshake":
                    self.obj.do_handshake()
                    self.hs_done = True
                    self.steps.pop(0)
                    self.outbio_mark("handshake")
                    progressed = True
                elif st[0] == "write":
                    self.obj.write(st[1])
                    self.steps.pop(0)
                    self.nwrites += 1
                    self.outbio_mark(f"write{self.nwrites}")
                    progressed = True
                elif st[0] == "unwrap":
                    try:
                        self.obj.unwrap()
                    except (ssl.SSLWantReadError, ssl.SSLWantWriteError):
                        pass
                    self.steps.pop(0)
                    self.outbio_mark("close_notify")
                    progressed = True
                elif st[0] == "read_n":
                    if len(self.plaintext_in) >= st[1]:
                        self.steps.pop(0)
                        progressed = True
                    else:
                        d = self.obj.read(65536)
                        if d:
                            self.plaintext_in += d
                            progressed = True
                        else:
                            self.got_close_notify = True
                            self.steps.pop(0)
                            progressed = True
                elif st[0] == "read":
                    try:
                        d = self.obj.read(65536)
                    except ssl.SSLZeroReturnError:
                        d = b""
                    if d:
                        self.plaintext_in += d
                        progressed = True
                    else:
                        self.got_close_notify = True
                        self.steps.pop(0)
                        progressed = True
            except (ssl.SSLWantReadError, ssl.SSLWantWriteError):
                pass
            except ssl.SSLError as exc:
                self.read_error = exc
                self.steps.pop(0)
                progressed = True
        return self._emit(limit)

    def outbio_mark(self, name: str) -> None:
        # total bytes produced so far (sent + queued + pending in the BIO)
        self.marks[name] = self.bytes_out + len(self.out_queue) + self.outbio.pending
