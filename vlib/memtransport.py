"""In-memory asynchronous transports (harness side) for the real AsyncIOBackend.

Rules (each learnt from a prototype false alarm):
 1. arrivals are produced by ONE ordered feeder task per direction (never lazily inside recv_into, never one call_at
    per chunk);
 2. recv_into removes bytes from the pipe only in the step in which it returns, so it is cancel-safe by construction
    and any loss seen above it belongs to the library.
Every call is recorded: send_all payloads = the wire; recv sizes; close state.
"""

from __future__ import annotations

import asyncio
from collections.abc import Callable, Coroutine, Iterable, Mapping
from typing import Any, NoReturn

from easynetwork.lowlevel.api_async.backend.abc import AsyncBackend, TaskGroup
from easynetwork.lowlevel.api_async.transports.abc import (
    AsyncDatagramListener,
    AsyncDatagramTransport,
    AsyncListener,
    AsyncStreamTransport,
)

EOF = object()


class Pipe:
    """one direction of a byte stream"""

    def __init__(self) -> None:
        self.buf = bytearray()
        self.eof = False
        self.error: BaseException | None = None
        self._waiters: list[asyncio.Future] = []
        self.total_fed = 0
        self.feed_log: list[tuple[float, int | None]] = []  # (virtual time, nbytes | None for EOF) as actually fed
        self.capacity: int | None = None  # bounded pipe: writers wait while len(buf) >= capacity
        self._drain_waiters: list[asyncio.Future] = []

    def wake_drained(self) -> None:
        ws, self._drain_waiters = self._drain_waiters, []
        for w in ws:
            if not w.done():
                w.set_result(None)

    async def wait_writable(self) -> None:
        while self.capacity is not None and len(self.buf) >= self.capacity and not self.eof:
            fut = asyncio.get_running_loop().create_future()
            self._drain_waiters.append(fut)
            try:
                await fut
            finally:
                if fut in self._drain_waiters:
                    self._drain_waiters.remove(fut)

    def _wake(self) -> None:
        ws, self._waiters = self._waiters, []
        for w in ws:
            if not w.done():
                w.set_result(None)

    def feed(self, data: bytes) -> None:
        if data:
            self.buf += data
            self.total_fed += len(data)
            self._wake()

    def feed_eof(self) -> None:
        self.eof = True
        self._wake()

    def feed_error(self, exc: BaseException) -> None:
        self.error = exc
        self._wake()

    async def wait_readable(self) -> None:
        while not self.buf and not self.eof and self.error is None:
            fut = asyncio.get_running_loop().create_future()
            self._waiters.append(fut)
            try:
                await fut
            finally:
                if fut in self._waiters:
                    self._waiters.remove(fut)


async def feeder(pipe: Pipe, script: list[tuple[float, Any]]) -> None:
    """script: [(delay_virtual_seconds_or_negative_iterations, bytes | EOF | BaseException)] delivered in order.
    delay > 0: asyncio.sleep(delay); delay == 0: immediately; delay < 0: -delay loop iterations (sleep(0))."""
    for delay, item in script:
        if delay > 0:
            await asyncio.sleep(delay)
        elif delay < 0:
            for _ in range(int(-delay)):
                await asyncio.sleep(0)
        now = asyncio.get_running_loop().time()
        if item is EOF:
            pipe.feed_log.append((now, None))
            pipe.feed_eof()
        elif isinstance(item, BaseException):
            pipe.feed_error(item)
        else:
            pipe.feed_log.append((now, len(item)))
            pipe.feed(item)


class MemStreamTransport(AsyncStreamTransport):

    def __init__(self, backend: AsyncBackend, incoming: Pipe | None = None, outgoing: Pipe | None = None, name: str = "mem") -> None:
        self._backend = backend
        self.incoming = incoming if incoming is not None else Pipe()
        self.outgoing = outgoing
        self.wire: list[bytes] = []  # every fragment handed to the "network", in order
        self.calls: list[tuple] = []
        self.closed = False
        self.closing = False
        self.aclose_entered = 0
        self.aclose_finished = 0
        self.aclose_calls = 0
        self.eof_returned = False
        self.read_after_eof = False
        self.hostile_tail: bytes | None = None
        self.recv_cap: int | None = None
        self.send_frag: int | None = None  # split each send_all into fragments of this size
        self.send_yield = 0  # loop iterations to suspend between fragments
        self.send_sleep = 0.0  # virtual seconds to suspend between fragments
        self.send_block: asyncio.Event | None = None  # if set: send_all waits for it before writing each fragment
        self.aclose_script: list = []  # items: ("sleep", d) | ("yield", k) | ("raise", exc) | ("hang",)
        self.send_faults: dict[int, BaseException] = {}
        self.recv_faults: dict[int, Any] = {}
        self.n_send = 0
        self.n_recv = 0
        self.eof_sent = False
        self.in_send = 0
        self.max_in_send = 0
        self.events: list[tuple] = []
        self.name = name
        self.in_recv = 0
        self.both_in_flight = 0  # times a send was suspended in here while a receive was pending too
        self.extras: dict = {}
        self.send_started = 0  # send_all calls that began writing
        self.overlap_attempts = 0  # send_all entered while another send_all was suspended in here

    def use_socket_extras(self, sock) -> None:
        """expose the typed attributes of a real (dummy) socket: clients and servers want family / sockname / peername"""
        from easynetwork.lowlevel import socket as socket_tools

        self.extras = socket_tools._get_socket_extra(sock, wrap_in_proxy=False)

    # ------------------------------------------------------------------ read side
    async def recv_into(self, buffer) -> int:
        self.n_recv += 1
        idx = self.n_recv
        with memoryview(buffer) as mv:
            want = mv.nbytes
        self.calls.append(("recv_into", want))
        if self.closed:
            raise OSError(9, "closed mem transport")
        fault = self.recv_faults.get(idx)
        if fault is not None:
            if fault == "hang":
                await asyncio.get_running_loop().create_future()
            raise fault
        if self.eof_returned:
            self.read_after_eof = True
            if self.hostile_tail:
                n = min(want, len(self.hostile_tail))
                with memoryview(buffer) as mv:
                    mv[:n] = self.hostile_tail[:n]
                return n
            return 0
        self.in_recv += 1
        try:
            if self.in_send:
                self.both_in_flight += 1
            await self.incoming.wait_readable()
        finally:
            self.in_recv -= 1
        # ---- from here on no suspension: bytes leave the pipe in the step in which we return
        if self.incoming.buf:
            n = min(want, len(self.incoming.buf))
            if self.recv_cap:
                n = min(n, self.recv_cap)
            with memoryview(buffer) as mv:
                mv[:n] = self.incoming.buf[:n]
            del self.incoming.buf[:n]
            self.incoming.wake_drained()
            self.events.append(("recv", n))
            return n
        if self.incoming.error is not None:
            raise self.incoming.error
        self.eof_returned = True
        self.events.append(("recv-eof",))
        return 0

    # ------------------------------------------------------------------ write side
    async def send_all(self, data) -> None:
        self.n_send += 1
        idx = self.n_send
        data = bytes(data)
        self.calls.append(("send_all", len(data)))
        if self.closed:
            raise OSError(9, "closed mem transport")
        fault = self.send_faults.get(idx)
        if fault is not None:
            raise fault
        if self.in_send:
            self.overlap_attempts += 1
        self.in_send += 1
        self.max_in_send = max(self.max_in_send, self.in_send)
        if self.in_recv:
            self.both_in_flight += 1
        try:
            frag = self.send_frag or max(1, len(data))
            pos = 0
            first = True
            while pos < len(data) or first:
                if self.send_block is not None:
                    await self.send_block.wait()
                if self.outgoing is not None and isinstance(self.outgoing, Pipe) and self.outgoing.capacity is not None:
                    await self.outgoing.wait_writable()
                part = data[pos : pos + frag]
                pos += len(part)
                first = False
                if part:
                    self.wire.append(part)
                    if self.outgoing is not None:
                        self.outgoing.feed(part)
                if pos < len(data) or self.send_yield or self.send_sleep:
                    for _ in range(self.send_yield):
                        await asyncio.sleep(0)
                    if self.send_sleep:
                        await asyncio.sleep(self.send_sleep)
        finally:
            self.in_send -= 1

    async def send_eof(self) -> None:
        self.calls.append(("send_eof",))
        self.eof_sent = True
        if self.outgoing is not None:
            self.outgoing.feed_eof()

    # ------------------------------------------------------------------ close
    async def aclose(self) -> None:
        self.aclose_calls += 1
        self.aclose_entered += 1
        self.closing = True
        self.calls.append(("aclose",))
        if self.closed:
            return  # like a real socket: closing an already closed transport is immediate
        try:
            for item in list(self.aclose_script):
                if item[0] == "sleep":
                    await asyncio.sleep(item[1])
                elif item[0] == "yield":
                    for _ in range(item[1]):
                        await asyncio.sleep(0)
                elif item[0] == "raise":
                    raise item[1]
                elif item[0] == "hang":
                    await asyncio.get_running_loop().create_future()
        finally:
            # like a real socket: the resource is released once close was requested, whatever happens to the caller
            self.closed = True
            if self.outgoing is not None and not self.outgoing.eof:
                self.outgoing.feed_eof()
            self.incoming._wake()
            self.incoming.wake_drained()
        self.aclose_finished += 1

    def is_closing(self) -> bool:
        return self.closing

    def backend(self) -> AsyncBackend:
        return self._backend

    @property
    def extra_attributes(self) -> Mapping[Any, Callable[[], Any]]:
        return self.extras

    def wire_bytes(self) -> bytes:
        return b"".join(self.wire)


def stream_pair(backend: AsyncBackend) -> tuple[MemStreamTransport, MemStreamTransport]:
    ab, ba = Pipe(), Pipe()
    a = MemStreamTransport(backend, incoming=ba, outgoing=ab, name="a")
    b = MemStreamTransport(backend, incoming=ab, outgoing=ba, name="b")
    return a, b


class MemDatagramTransport(AsyncDatagramTransport):

    def __init__(self, backend: AsyncBackend) -> None:
        self._backend = backend
        self.inbox: list[bytes] = []
        self.sent: list[bytes] = []
        self.closed = False
        self.closing = False
        self._waiters: list[asyncio.Future] = []
        self.send_yield = 0
        self.aclose_entered = 0
        self.aclose_script: list = []

    def feed(self, datagram: bytes) -> None:
        self.inbox.append(datagram)
        ws, self._waiters = self._waiters, []
        for w in ws:
            if not w.done():
                w.set_result(None)

    async def recv(self) -> bytes:
        if self.closed:
            raise OSError(9, "closed")
        while not self.inbox:
            fut = asyncio.get_running_loop().create_future()
            self._waiters.append(fut)
            try:
                await fut
            finally:
                if fut in self._waiters:
                    self._waiters.remove(fut)
        return self.inbox.pop(0)

    async def send(self, data) -> None:
        if self.closed:
            raise OSError(9, "closed")
        for _ in range(self.send_yield):
            await asyncio.sleep(0)
        self.sent.append(bytes(data))

    async def aclose(self) -> None:
        self.aclose_entered += 1
        self.closing = True
        if self.closed:
            return
        try:
            for item in list(self.aclose_script):
                if item[0] == "sleep":
                    await asyncio.sleep(item[1])
                elif item[0] == "yield":
                    for _ in range(item[1]):
                        await asyncio.sleep(0)
                elif item[0] == "raise":
                    raise item[1]
        finally:
            self.closed = True

    def is_closing(self) -> bool:
        return self.closing

    def backend(self) -> AsyncBackend:
        return self._backend

    @property
    def extra_attributes(self):
        return {}


class MemListener(AsyncListener[MemStreamTransport]):
    """accepts the transports pushed with .connect(); like the real listener it starts one task per connection"""

    def __init__(self, backend: AsyncBackend) -> None:
        self._backend = backend
        self._queue: asyncio.Queue = asyncio.Queue()
        self.closing = False
        self.accepted = 0

    def connect(self, transport: MemStreamTransport) -> None:
        self._queue.put_nowait(transport)

    async def serve(self, handler, task_group: TaskGroup | None = None) -> NoReturn:
        async with self._backend.create_task_group() if task_group is None else _Null(task_group) as tg:
            while True:
                t = await self._queue.get()
                self.accepted += 1
                tg.start_soon(handler, t)

    async def aclose(self) -> None:
        self.closing = True

    def is_closing(self) -> bool:
        return self.closing

    def backend(self) -> AsyncBackend:
        return self._backend

    @property
    def extra_attributes(self):
        return {}


class _Null:
    def __init__(self, v: Any) -> None:
        self.v = v

    async def __aenter__(self):
        return self.v

    async def __aexit__(self, *a):
        return False


class MemDatagramListener(AsyncDatagramListener[Any]):
    """scripted datagram listener: like the real one, starts one handler task per datagram in arrival order"""

    def __init__(self, backend: AsyncBackend) -> None:
        self._backend = backend
        self._queue: asyncio.Queue = asyncio.Queue()
        self.sent: list[tuple[bytes, Any]] = []
        self.closing = False

    def deliver(self, datagram: bytes, address: Any) -> None:
        self._queue.put_nowait((datagram, address))

    async def serve(self, handler, task_group: TaskGroup | None = None) -> NoReturn:
        async with self._backend.create_task_group() if task_group is None else _Null(task_group) as tg:
            while True:
                datagram, address = await self._queue.get()
                tg.start_soon(handler, datagram, address)

    async def send_to(self, data, address) -> None:
        self.sent.append((bytes(data), address))

    async def aclose(self) -> None:
        self.closing = True

    def is_closing(self) -> bool:
        return self.closing

    def backend(self) -> AsyncBackend:
        return self._backend

    @property
    def extra_attributes(self):
        return {}
