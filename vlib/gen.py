"""Generators: serializer configurations, valid packet domains, chunkings, fill sequences.

Everything is driven by a seeded random.Random so a (config name, seed) pair replays exactly.
"""

from __future__ import annotations

import dataclasses
import io
import math
import pickle
import random
import struct as _struct
from collections import namedtuple
from typing import Any, Callable, NamedTuple

from easynetwork.converter import AbstractPacketConverter
from easynetwork.exceptions import DeserializeError, PacketConversionError
from easynetwork.protocol import BufferedStreamProtocol, DatagramProtocol, StreamProtocol
from easynetwork.serializers import (
    JSONSerializer,
    NamedTupleStructSerializer,
    PickleSerializer,
    StringLineSerializer,
    StructSerializer,
)
from easynetwork.serializers.wrapper.base64 import Base64EncoderSerializer
from easynetwork.serializers.wrapper.compressor import BZ2CompressorSerializer, ZlibCompressorSerializer
from easynetwork.serializers.abc import AbstractIncrementalPacketSerializer, BufferedIncrementalPacketSerializer
from easynetwork.serializers.base_stream import (
    AutoSeparatedPacketSerializer,
    FileBasedPacketSerializer,
    FixedSizePacketSerializer,
)
from easynetwork.serializers.composite import StapledPacketSerializer

# --------------------------------------------------------------------------------------------
# text / value generators

_ASCII_POOL = "abcXYZ019 ~!\"\\{}[],:/'\t\x00\x7f"
_UNI_POOL = _ASCII_POOL + "\u00e9\u00df\u0416\u4e2d\u20ac\U0001f600\U00010348\u200b\ufeff"


def gen_text(rng: random.Random, pool: str, lo: int, hi: int, forbid: str = "") -> str:
    n = rng.randint(lo, hi)
    chars = [c for c in pool if c not in forbid]
    return "".join(rng.choice(chars) for _ in range(n))


def gen_json_value(rng: random.Random, depth: int = 0, ascii_only: bool = False) -> Any:
    pool = _ASCII_POOL if ascii_only else _UNI_POOL
    r = rng.random()
    if depth >= 3 or r < 0.45:
        k = rng.randrange(9)
        if k == 0:
            return None
        if k == 1:
            return rng.choice([True, False])
        if k == 2:
            return rng.randint(-(10**6), 10**6)
        if k == 3:
            return rng.choice([0, -1, 2**63, -(2**64), 10**30])
        if k == 4:
            return rng.choice([0.5, -1.25, 1e100, 1e-7, 3.141592653589793, float("inf"), -0.0])
        if k == 5:
            # strings aimed at the raw parser: quotes, backslashes, brackets
            return rng.choice(['"', "\\", '\\"', '\\\\"', "{", "}", "[", "]", '{"', "\n", "\r\n", "\\n", '"}]', "\\\\", '"' * 3, "\\" * 3])
        return gen_text(rng, pool + '\n\r"\\', 0, 12)
    if r < 0.75:
        return [gen_json_value(rng, depth + 1, ascii_only) for _ in range(rng.randint(0, 4))]
    return {gen_text(rng, pool + '"\\', 0, 6): gen_json_value(rng, depth + 1, ascii_only) for _ in range(rng.randint(0, 4))}


def gen_json_container(rng: random.Random) -> Any:
    v = gen_json_value(rng)
    if rng.random() < 0.7 and not isinstance(v, (dict, list)):
        v = rng.choice([[v], {"k": v}, {"a": [v, {"b": v}]}])
    return v


def gen_pickle_value(rng: random.Random) -> Any:
    v = gen_json_value(rng)
    k = rng.randrange(5)
    if k == 0:
        return (v, b"\x00\xff\n" * rng.randint(0, 3))
    if k == 1:
        return {1: v, (2, 3): (1, 2)}
    if k == 2:
        return rng.getrandbits(200)
    return v


# --------------------------------------------------------------------------------------------
# harness serializers (subclasses of the public base classes)


class RawSep(AutoSeparatedPacketSerializer[bytes, bytes]):
    """bytes packets; rejects payloads containing 0xFF (DeserializeError) so undecodable frames exist."""

    __slots__ = ()

    def serialize(self, packet: bytes) -> bytes:
        return bytes(packet)

    def deserialize(self, data: bytes) -> bytes:
        if b"\xff" in data:
            raise DeserializeError("0xff is not allowed")
        return bytes(data)


class IncrOnlyText(AbstractIncrementalPacketSerializer[str, str]):
    """an application-defined incremental serializer that implements ONLY the incremental interface (text + 0x1e terminator,
    utf-8): its one-shot serialize() / deserialize() are the ones inherited from AbstractIncrementalPacketSerializer, so a
    malformed datagram surfaces from the generator as an IncrementalDeserializeError"""

    __slots__ = ("_limit",)
    SEP = b"\x1e"

    def __init__(self, limit: int = 65536) -> None:
        super().__init__()
        self._limit = limit

    def incremental_serialize(self, packet: str):
        yield packet.encode("utf-8") + self.SEP

    def incremental_deserialize(self):
        from easynetwork.exceptions import IncrementalDeserializeError
        from easynetwork.serializers.tools import GeneratorStreamReader

        reader = GeneratorStreamReader()
        data = yield from reader.read_until(self.SEP, limit=self._limit, keep_end=False)
        remainder = reader.read_all()
        try:
            return data.decode("utf-8"), remainder
        except UnicodeError as exc:
            raise IncrementalDeserializeError(str(exc), remainder) from exc


class Fixed8(FixedSizePacketSerializer[bytes, bytes]):
    __slots__ = ()

    def __init__(self, size: int = 8) -> None:
        super().__init__(size)

    def serialize(self, packet: bytes) -> bytes:
        return bytes(packet)

    def deserialize(self, data: bytes) -> bytes:
        if len(data) != self.packet_size:
            raise DeserializeError("bad size")
        if data.startswith(b"\xff"):
            raise DeserializeError("0xff header is not allowed")
        return bytes(data)


class LenPrefixedFile(FileBasedPacketSerializer[str, str]):
    """2-byte big-endian length + utf-8 payload, read through the file API."""

    __slots__ = ()

    def __init__(self, limit: int = 65536) -> None:
        super().__init__(expected_load_error=(UnicodeError,), limit=limit)

    def dump_to_file(self, packet: str, file: Any) -> None:
        raw = packet.encode("utf-8")
        file.write(len(raw).to_bytes(2, "big"))
        file.write(raw)

    def load_from_file(self, file: Any) -> str:
        head = file.read(2)
        if len(head) < 2:
            raise EOFError
        n = int.from_bytes(head, "big")
        raw = file.read(n)
        if len(raw) < n:
            raise EOFError
        return raw.decode("utf-8")


class RefusingUnpickler(pickle.Unpickler):
    def find_class(self, module: str, name: str) -> Any:
        raise pickle.UnpicklingError(f"global '{module}.{name}' is forbidden")


class PickleFile(FileBasedPacketSerializer[Any, Any]):
    """A file-based pickle serializer (restricted unpickler); truncated input is mapped to EOFError."""

    __slots__ = ()

    def __init__(self, limit: int = 65536) -> None:
        super().__init__(expected_load_error=(pickle.UnpicklingError, ValueError, IndexError, KeyError, AttributeError, TypeError, UnicodeError, OverflowError, MemoryError), limit=limit)

    def dump_to_file(self, packet: Any, file: Any) -> None:
        pickle.dump(packet, file, protocol=4)

    def load_from_file(self, file: Any) -> Any:
        try:
            return RefusingUnpickler(file).load()
        except pickle.UnpicklingError as exc:
            if "truncated" in str(exc):  # the file API contract: incomplete input is EOFError
                raise EOFError from exc
            raise


@dataclasses.dataclass(frozen=True)
class Person:
    name: str
    age: int


class PersonConverter(AbstractPacketConverter[Person, dict]):
    __slots__ = ()

    def create_from_dto_packet(self, packet: Any) -> Person:
        try:
            if not isinstance(packet, dict) or set(packet) != {"name", "age"}:
                raise KeyError("shape")
            if not isinstance(packet["name"], str) or not isinstance(packet["age"], int):
                raise TypeError("types")
            return Person(packet["name"], packet["age"])
        except (KeyError, TypeError) as exc:
            raise PacketConversionError(f"bad person: {exc}") from exc

    def convert_to_dto_packet(self, obj: Person) -> dict:
        return {"name": obj.name, "age": obj.age}


Point = namedtuple("Point", ["x", "name", "flag"])


# --------------------------------------------------------------------------------------------
# configurations


@dataclasses.dataclass
class Config:
    name: str
    factory: Callable[..., Any]  # factory(limit=...) -> serializer
    gen_packet: Callable[[random.Random], Any]
    converter: Any = None
    separator: bytes | None = None  # for separator-framed serializers
    has_limit: bool = True
    kind: str = "sep"  # sep | json-raw | fixed | file | compress
    inner_pickle: bool = False
    expect: Callable[[Any], Any] = staticmethod(lambda p: p)  # sent packet -> packet the receiver must return

    def serializer(self, limit: int | None = None) -> Any:
        if limit is None or not self.has_limit:
            return self.factory()
        return self.factory(limit=limit)

    def is_buffered(self, ser: Any = None) -> bool:
        ser = ser if ser is not None else self.serializer()
        return isinstance(ser, BufferedIncrementalPacketSerializer)

    def stream_protocol(self, limit: int | None = None) -> StreamProtocol:
        return StreamProtocol(self.serializer(limit), self.converter)

    def buffered_protocol(self, limit: int | None = None) -> BufferedStreamProtocol | None:
        ser = self.serializer(limit)
        if not isinstance(ser, BufferedIncrementalPacketSerializer):
            return None
        return BufferedStreamProtocol(ser, self.converter)

    def datagram_protocol(self) -> DatagramProtocol:
        return DatagramProtocol(self.serializer(), self.converter)


def _line_packet(sep: bytes, keep_end: bool, pool: str) -> Callable[[random.Random], str]:
    """Valid line packets: non-empty, the encoded text does not contain the separator (with CRLF, lone CR
    and LF are allowed, also at the end: "x\r"+"\r\n" is still framed at the appended CRLF); with
    keep_end=True the text ends with exactly one separator so that the round trip is the identity."""
    forbid = sep.decode("ascii")

    def gen(rng: random.Random) -> str:
        while True:
            if len(sep) == 1:
                t = gen_text(rng, pool, 1, 14, forbid=forbid)
            else:
                t = gen_text(rng, pool + "\r\n", 1, 14)
            if forbid in t:
                continue
            if (t + forbid).find(forbid) != len(t):
                continue
            if keep_end:
                t = t + forbid
            return t

    return gen


def _struct_packet(fmt: str) -> Callable[[random.Random], tuple]:
    s = _struct.Struct(fmt)

    def gen(rng: random.Random) -> tuple:
        while True:
            data = bytes(rng.getrandbits(8) for _ in range(s.size))
            vals = s.unpack(data)
            if any(isinstance(v, float) and math.isnan(v) for v in vals):
                continue
            # '?' normalises to bool; repack to make sure the tuple is a fixed point
            if s.unpack(s.pack(*vals)) == vals:
                return vals

    return gen


def _point_packet(rng: random.Random) -> Any:
    while True:
        name = gen_text(rng, _UNI_POOL.replace("\x00", ""), 0, 5)
        if len(name.encode("utf-8")) <= 10:
            break
    return Point(rng.randint(-(2**31), 2**31 - 1), name, rng.randrange(256))


def _person_packet(rng: random.Random) -> Person:
    return Person(gen_text(rng, _UNI_POOL + '"\\\n', 0, 10), rng.randint(-5, 150))


def all_configs() -> list[Config]:
    cfgs: list[Config] = []
    for nl, sep in (("LF", b"\n"), ("CR", b"\r"), ("CRLF", b"\r\n")):
        for enc, pool in (("ascii", _ASCII_POOL), ("utf-8", _UNI_POOL)):
            for keep_end in (False, True):
                cfgs.append(
                    Config(
                        f"line-{nl}-{enc}-{'keep' if keep_end else 'strip'}",
                        (lambda nl=nl, enc=enc, keep_end=keep_end: (lambda limit=65536: StringLineSerializer(nl, encoding=enc, keep_end=keep_end, limit=limit)))(),
                        _line_packet(sep, keep_end, pool),
                        separator=sep,
                    )
                )
    for use_lines in (True, False):
        for ensure_ascii in (True, False):
            from easynetwork.serializers.json import JSONEncoderConfig

            cfgs.append(
                Config(
                    f"json-{'lines' if use_lines else 'raw'}-{'ascii' if ensure_ascii else 'utf8'}",
                    (lambda use_lines=use_lines, ensure_ascii=ensure_ascii: (lambda limit=65536: JSONSerializer(JSONEncoderConfig(ensure_ascii=ensure_ascii), use_lines=use_lines, limit=limit)))(),
                    gen_json_value,
                    separator=b"\n" if use_lines else None,
                    kind="sep" if use_lines else "json-raw",
                )
            )
    cfgs.append(
        Config(
            "json-lines-converter",
            lambda limit=65536: JSONSerializer(limit=limit),
            _person_packet,
            converter=PersonConverter(),
            separator=b"\n",
        )
    )
    cfgs.append(
        Config(
            "json-raw-converter",
            lambda limit=65536: JSONSerializer(use_lines=False, limit=limit),
            _person_packet,
            converter=PersonConverter(),
            kind="json-raw",
        )
    )
    for fmt in ("!hIq", "<bB?", "!d5s", "=f", "!B"):
        cfgs.append(Config(f"struct-{fmt}", (lambda fmt=fmt: (lambda: StructSerializer(fmt)))(), _struct_packet(fmt), has_limit=False, kind="fixed"))
    cfgs.append(
        Config(
            "ntstruct-point",
            lambda: NamedTupleStructSerializer(Point, {"x": "i", "name": "10s", "flag": "B"}),
            _point_packet,
            has_limit=False,
            kind="fixed",
        )
    )
    key = Base64EncoderSerializer.generate_key()
    for alphabet in ("standard", "urlsafe"):
        for cname, checksum in (("nock", False), ("sha", True), ("key", key)):
            for sep in (b"\n", b"\r\n", b"|#|", b"..!"):
                for inner_name, inner in (("json", lambda: JSONSerializer()), ("pickle", lambda: PickleSerializer(unpickler_cls=RefusingUnpickler))):
                    if inner_name == "pickle" and not (alphabet == "urlsafe" and sep in (b"\r\n", b"|#|")):
                        continue
                    cfgs.append(
                        Config(
                            f"b64-{alphabet}-{cname}-{sep.hex()}-{inner_name}",
                            (lambda alphabet=alphabet, checksum=checksum, sep=sep, inner=inner: (lambda limit=65536: Base64EncoderSerializer(inner(), alphabet=alphabet, checksum=checksum, separator=sep, limit=limit)))(),
                            gen_json_value if inner_name == "json" else gen_pickle_value,
                            separator=sep,
                            inner_pickle=inner_name == "pickle",
                        )
                    )
    for cname, cls in (("zlib", ZlibCompressorSerializer), ("bz2", BZ2CompressorSerializer)):
        for level in (1, 9):
            for inner_name, inner in (("json", lambda: JSONSerializer()), ("pickle", lambda: PickleSerializer(unpickler_cls=RefusingUnpickler)), ("line", lambda: StringLineSerializer())):
                if inner_name != "json" and level == 9:
                    continue
                g = gen_json_value if inner_name == "json" else gen_pickle_value if inner_name == "pickle" else _line_packet(b"\n", False, _ASCII_POOL)
                cfgs.append(
                    Config(
                        f"{cname}-{level}-{inner_name}",
                        (lambda cls=cls, level=level, inner=inner: (lambda: cls(inner(), compress_level=level)))(),
                        g,
                        has_limit=False,
                        kind="compress",
                        inner_pickle=inner_name == "pickle",
                    )
                )
    for sep in (b"\x00", b"\r\n", b"aab", b"|#|"):
        for check in (True, False):
            cfgs.append(
                Config(
                    f"rawsep-{sep.hex()}-{'chk' if check else 'nochk'}",
                    (lambda sep=sep, check=check: (lambda limit=65536: RawSep(sep, incremental_serialize_check_separator=check, limit=limit)))(),
                    (lambda sep=sep: (lambda rng: _rawsep_packet(rng, sep)))(),
                    separator=sep,
                )
            )
    cfgs.append(Config("incronly-text", lambda limit=65536: IncrOnlyText(limit=limit), lambda rng: gen_text(rng, _UNI_POOL.replace("\x1e", ""), 0, 20).replace("\x1e", ""), separator=b"\x1e"))
    cfgs.append(Config("fixed8", lambda: Fixed8(8), lambda rng: bytes([rng.randrange(0, 255)]) + bytes(rng.getrandbits(8) for _ in range(7)), has_limit=False, kind="fixed"))
    cfgs.append(Config("fixed1", lambda: Fixed8(1), lambda rng: bytes([rng.randrange(0, 255)]), has_limit=False, kind="fixed"))
    cfgs.append(Config("lenfile", lambda limit=65536: LenPrefixedFile(limit=limit), lambda rng: gen_text(rng, _UNI_POOL, 0, 20), kind="file"))
    cfgs.append(Config("picklefile", lambda limit=65536: PickleFile(limit=limit), gen_pickle_value, kind="file", inner_pickle=True))
    cfgs.append(
        Config(
            "stapled-json-lines",
            lambda limit=65536: StapledPacketSerializer(JSONSerializer(limit=limit), JSONSerializer(limit=limit, debug=True)),
            gen_json_value,
            separator=b"\n",
        )
    )
    cfgs.append(
        Config(
            "stapled-json-line",  # sent as JSON lines, received as text lines (buffered receive side)
            lambda limit=65536: _StapledJsonLine(limit),
            gen_json_value,
            separator=b"\n",
            expect=_json_text,
        )
    )
    return cfgs


def _rawsep_packet(rng: random.Random, sep: bytes) -> bytes:
    while True:
        n = rng.randint(1, 12)
        # bias towards bytes of the separator so partial matches occur
        pool = bytes(set(sep)) * 3 + b"xyz\x01\xfe"
        p = bytes(rng.choice(pool) for _ in range(n))
        if sep in p or p.endswith(sep[:1]) and len(sep) > 1 and (p + sep).find(sep) != len(p):
            continue
        if (p + sep).find(sep) != len(p):
            continue
        if b"\xff" in p:
            continue
        return p


def _json_text(p: Any) -> str:
    import json

    return json.dumps(p, separators=(",", ":"))


def _StapledJsonLine(limit: int) -> Any:
    # sent as JSON lines, received as text lines by the buffered line serializer
    return StapledPacketSerializer(JSONSerializer(limit=limit), StringLineSerializer("LF", encoding="utf-8", limit=limit))


def config_by_name(name: str) -> Config:
    for c in all_configs():
        if c.name == name:
            return c
    raise KeyError(name)


# --------------------------------------------------------------------------------------------
# chunkings


def chunks_from_cuts(stream: bytes, cuts: list[int]) -> list[bytes]:
    out = []
    prev = 0
    for c in sorted(set(cuts)):
        if 0 < c < len(stream):
            out.append(stream[prev:c])
            prev = c
    out.append(stream[prev:])
    return [c for c in out if c] or ([stream] if stream else [])


def random_cuts(rng: random.Random, n: int) -> list[int]:
    if n <= 1:
        return []
    mode = rng.randrange(5)
    if mode == 0:
        return []
    if mode == 1:
        return list(range(1, n))
    if mode == 2:
        k = rng.randint(1, min(6, n - 1))
        return sorted(rng.sample(range(1, n), k))
    if mode == 3:
        # geometric small
        cuts, p = [], 0
        while True:
            p += min(1 + int(rng.expovariate(0.6)), 8)
            if p >= n:
                return cuts
            cuts.append(p)
    cuts, p = [], 0
    while True:
        p += 1 + int(rng.expovariate(0.05))
        if p >= n:
            return cuts
        cuts.append(p)


def targeted_cuts(rng: random.Random, n: int, interesting: list[int]) -> list[int]:
    """cuts within +-2 of interesting offsets"""
    cuts = set()
    for off in interesting:
        if rng.random() < 0.6:
            c = off + rng.randint(-2, 2)
            if 0 < c < n:
                cuts.add(c)
    return sorted(cuts)


def all_compositions(n: int):
    """every subset of cut positions 1..n-1 as a sorted list (2^(n-1) of them)"""
    for mask in range(1 << max(0, n - 1)):
        yield [i + 1 for i in range(n - 1) if mask >> i & 1]


def fills_from_cuts(n: int, cuts: list[int]) -> list[int]:
    sizes, prev = [], 0
    for c in cuts:
        sizes.append(c - prev)
        prev = c
    sizes.append(max(1, n - prev))
    return sizes


HINTS = [1, 2, 3, 5, 16, 64, 1024, 16384]
