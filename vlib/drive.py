"""Consumer drivers: reproduce, call for call, what the endpoints do with the two stream consumers."""

from __future__ import annotations

from typing import Any

from easynetwork.exceptions import StreamProtocolParseError
from easynetwork.lowlevel._stream import BufferedStreamDataConsumer, StreamDataConsumer, StreamDataProducer


def produce(protocol: Any, packets: list) -> tuple[bytes, list[int], list[list[bytes]]]:
    """returns (stream, frame end offsets, chunks per packet) using the real producer"""
    prod = StreamDataProducer(protocol)
    stream = bytearray()
    ends: list[int] = []
    per: list[list[bytes]] = []
    for p in packets:
        chunks = [bytes(c) for c in prod.generate(p)]
        per.append(chunks)
        for c in chunks:
            stream += c
        ends.append(len(stream))
    return bytes(stream), ends, per


def _err(exc: StreamProtocolParseError) -> tuple:
    return ("E", type(exc).__name__, type(exc.error).__name__)


def drain_copy(consumer: StreamDataConsumer, chunk: bytes | None, out: list, budget: int = 100000) -> None:
    """what _DataReceiverImpl.receive does across successive recv_packet calls: next(None) until
    StopIteration after each chunk"""
    first = True
    while budget > 0:
        budget -= 1
        try:
            if first and chunk is not None:
                first = False
                pkt = consumer.next(chunk)
            else:
                first = False
                pkt = consumer.next(None)
        except StopIteration:
            return
        except StreamProtocolParseError as exc:
            out.append(_err(exc))
        else:
            out.append(("P", pkt))
    raise AssertionError("drain budget exhausted (no progress)")


def drive_copy(protocol: Any, chunks: list[bytes]) -> tuple[list, bytes]:
    consumer = StreamDataConsumer(protocol)
    out: list = []
    drain_copy(consumer, None, out)
    for c in chunks:
        drain_copy(consumer, c, out)
    left = bytes(consumer.get_buffer())
    return out, left


def drive_buffered(protocol: Any, stream: bytes, fills: list[int], hint: int, stats: dict | None = None) -> tuple[list, bytes | None, int]:
    """buffer-filling consumer: next(None) drain; then get_write_buffer() -> write min(len(view), fill_i)
    bytes -> next(n), as _BufferedReceiverImpl.receive does."""
    consumer = BufferedStreamDataConsumer(protocol, hint)
    out: list = []

    def drain(n: int | None) -> None:
        budget = 100000
        first = True
        while budget > 0:
            budget -= 1
            try:
                pkt = consumer.next(n if first else None)
            except StopIteration:
                return
            except StreamProtocolParseError as exc:
                out.append(_err(exc))
            else:
                out.append(("P", pkt))
            finally:
                first = False
        raise AssertionError("drain budget exhausted (no progress)")

    drain(None)
    pos = 0
    i = 0
    maxbuf = 0
    while pos < len(stream):
        fill = fills[i % len(fills)] if fills else len(stream)
        i += 1
        with memoryview(consumer.get_write_buffer()) as view:
            n = min(view.nbytes, fill, len(stream) - pos)
            view[:n] = stream[pos : pos + n]
            if stats is not None and n == view.nbytes:
                stats["filled_to_end"] = stats.get("filled_to_end", 0) + 1
        pos += n
        maxbuf = max(maxbuf, consumer.buffer_size)
        drain(n)
    # leftover: bytes re-injected but not consumed
    left = consumer.get_value()
    return out, left, maxbuf
