#!/bin/sh
# setup_cmd: nothing to build (pure Python, stdlib only); generate the TLS test certificate if openssl is there,
# otherwise the committed fallback under fixtures/ is used; self-test the harness imports.
set -e
cd "$(dirname "$0")"
mkdir -p .work evidence replays
if [ ! -s fixtures/cert.pem ] || [ ! -s fixtures/key.pem ]; then
  openssl req -x509 -newkey rsa:2048 -nodes -keyout fixtures/key.pem -out fixtures/cert.pem -days 36500 \
     -subj "/CN=localhost" -addext "subjectAltName=DNS:localhost,IP:127.0.0.1" >/dev/null 2>&1 || true
fi
PYTHONPATH="$PWD:/repo/src" /venv/bin/python -c "import easynetwork, vlib.runner, vlib.gen, vlib.drive; print('setup ok', easynetwork.__file__)"
