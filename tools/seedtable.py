#!/usr/bin/env python3
"""Regenerate the table of seeded changes in DESIGN.md (between the SEEDTABLE markers) from seeded/*/meta.json and patch.diff."""
import glob, json, os, re

ROOT = os.path.dirname(os.path.dirname(os.path.abspath(__file__)))
NEEDED = {
    "S-C03-1": "C03: data settled before the receives, C10: exact attribution of the known loss (the coarse attribution had masked it)",
    "S-C08-1": "C08 multi-writer mode + trickling peer, C12 TLS target with concurrent reader",
    "S-C09-1": "C09 concurrent aclose() / reader scenario",
    "S-C10-1": "C10 server-receiver layer (C15 caught it before)",
    "S-C11-1": "C11 client-send-lock scenario",
    "S-C16-1": "C16 polling handlers (timeout 0) and scopes around the yield",
    "S-C18-1": "C18 tear-down template histories, held connections, rule e'",
    "S-C03-2": "C10 slots next-iter / expired and iterator timeout=0 (C03 caught it before)",
    "S-C01-3": "C01 many small frames coalesced into reads larger than a small limit (C07 caught it before)",
    "S-C04-3": "C04 now shares C11's client-behind-send-lock monitor (C11 caught it before; same change as S-C11-1)",
    "S-C06-3": "C02 stray closing brackets as one-byte bad frames of the raw JSON scanner (the change mis-frames; it raises no foreign exception, so it is outside C06's statement)",
    "S-C09-3": "C09 client sessions with ssl=True (the client builds the default context, ssl_standard_compatible unset; fixture certificate trusted through SSL_CERT_FILE)",
    "S-C10-3": "C10 harness: a later receive failing with an unexpected exception type crashed the worker (inconclusive); it is now recorded as 'the rest of the stream was not delivered'",
    "S-C14-3": "C14 harness: a CancelledError raised by the second close in a task nobody cancelled crashed the worker (inconclusive); it is now a 'second close' violation",
    "S-C15-3": "C15 handler that ends its generator right after closing the client; rule 'no generator is started after the handler closed the client'",
    "S-C16-3": "none: the change lets an uncaught TimeoutError of a handler kill the high-level UDP server, which is failure isolation (C17 catches it); C16's handlers never raise by construction",
    "S-C17-2": "C17 UDP burst behind the failing datagram with the failing handler suspended on bare yields (C16 caught it before)",
    "S-C18-3": "C18 NetworkServerThread.start() against shutdown()/server_close() with the server thread paused at every line of the start-up path",
    "S-C20-3": "C20 datagram send that itself crosses the high-water mark (asyncio calls pause_writing() from inside transport.sendto())",
    "S-C01-4": "C01 two streams interleaved on one protocol object plus a stream abandoned mid-frame (C02 caught it before)",
    "S-C02-4": "none: same change as S-C10-1 (cancellable yield in the server request receiver); it is a delivery defect of the server (C15, C10 catch it), C02 drives the parsers only",
    "S-C04-4": "C12 sender that times out waiting for the send lock while another is blocked mid-packet, then a third sender (the change lets the timed-out waiter release the holder's lock)",
    "S-C05-4": "C05 datagrams of 65506..65536 bytes over IPv6 loopback and AF_UNIX through the blocking endpoint / UDP client",
    "S-C06-4": "none: mis-framing in the buffered separator scanner (same line as S-C02-2), no foreign exception; C02 and C01 catch it",
    "S-C17-3": "C17 set-up faults 'payload then RST' and 'request then RST' (the kernel knows the reset before the event loop does)",
    "S-C08-4": "C08 high-level AsyncTCPNetworkServer over real sockets: handler writes 50-300 kB and ends without closing the client, late-reading peer with a 4 KiB window (the change is in servers/async_tcp.py, above the transports the property is anchored in)",
    "S-C09-4": "C09 reader kind 'low-level AsyncStreamServer without disconnect filter' (handler generator closed = clean end, exception thrown = error)",
    "S-C11-4": "C11 the client's other lock held by another thread for 3-30 s during the operation under test (TCP and UDP clients)",
    "S-C12-4": "C12 threads polling the client's state queries (is_closed, addresses) while a sender is blocked mid-packet and another waits",
    "S-C13-4": "C13 'drain' statements (real WriteFlowControl.drain() with a scripted resume_writing()) and the order-based rule I1s (no normal end in a task step that starts after an enclosing scope's cancel())",
    "S-C14-4": "C14 path 'client-connecting' (aclose() while wait_connected() is inside the connection set-up); same change as S-C19-2, C19 caught it before",
    "S-C16-4": "C16 level 'high' (handler run through servers.misc.build_lowlevel_datagram_server_handler) with handlers that let their TimeoutError escape",
    "S-C19-4": "C19 client level now goes through the real AsyncIOBackend.create_tcp_connection() (only name resolution is scripted); before, the harness back-end called the race itself and skipped the code between the race and wrap_stream_socket()",
    "S-C20-4": "C20 api 'tls.send_all' (AsyncTLSStreamTransport over the asyncio adapter, 1-5 concurrent senders); C08 and C12 caught it before. The new scenario also found a genuine defect (known finding tls-queued-sender-success-after-failed-flush)",
    "S-C01-5": "none: third occurrence of the cancellable yield in the server request receiver (S-C10-1, S-C02-4); a delivery defect of the server (C15, C10 catch it), C01 drives producers and consumers",
    "S-C04-5": "C04 occasional chunks of 300-700 kB in the asyncio-adapter / TLS variants (C08 and C20 caught it before)",
    "S-C05-5": "new harness configuration 'incronly-text': an incremental serializer that implements only the incremental interface, so that its inherited one-shot deserialize() raises IncrementalDeserializeError on malformed datagrams (used by C01, C05, C06)",
    "S-C06-5": "none: wrong remainder of a limit error for separators of 3+ bytes; a mis-framing defect (C02 catches it), no foreign exception and progress is kept",
    "S-C07-5": "C07 server request receiver scenario: handler waiting with a timeout and continuing after TimeoutError, endless unterminated line dripped with pauses shorter and longer than the timeout (C15 caught it before)",
    "S-C08-5": "C08 TLS over the real asyncio socket adapter: 0.4-1 MiB written while the reader is busy (the protocol pauses reading), then read with buffers as large as the backlog",
    "S-C09-5": "C09 high-level AsyncTCPNetworkServer whose handler closes the client, ssl_standard_compatible unset / True / False (close notification seen by an independent peer, TLSAttribute.standard_compatible in the handler)",
    "S-C12-5": "C12 state-query poller extended to client.fileno() and the socket proxy (client.socket.*); half of the runs keep the sender blocked for 1.3 s",
    "S-C13-5": "C13 'receive vs cancel in the same loop iteration' scenario (driver and order monitor shared with C10) with the new monitor event completed-despite-cancel",
    "S-C14-5": "C14 known-finding keys made shape-specific: the coarse key left-open:server-client-behind-sender:cancel-in-send_lock_wait had masked this seed (different outcome: cancelled instead of BusyResourceError)",
    "S-C18-5": "C18 rule g (a request sent while a serve_forever is up and no stop request is in progress is answered) and templates serve/echo/shutdown x2, x3",
    "S-C19-5": "none: same change as S-C14-1 (TLS wrap() no longer closes the transport on cancellation), needs the ssl= option; C14 catches it (path tls-wrap), C19's client level is plain TCP",
    "S-C20-5": "C20 datagram scenario on the server-side send path too (DatagramListenerSocketAdapter.send_to)",
    "S-C16-2": "C16 datagrams arriving before serve() and a stop + restart of serve() on the same listener",
    "S-C19-2": "C19 client level: AsyncTCPNetworkClient closed / its waiter cancelled at every step of the race",
    "S-C16-5": "C16 back-pressure scenario: replies through the real listener adapter (shared write flow control), per-client move_on_after() around the reply (C20's flow-control model caught it before)",
    "S-C16-6": "same C16 back-pressure scenario (C20 caught it before: reference model of WriteFlowControl and the stranded-sender rule)",
    "S-C08-6": "C08 packet endpoint over TLS with the operations TLS refuses (send_eof) or that time out interleaved with the writes",
    "S-C09-6": "C09 second read after the first verdict; BufferedStreamProtocol for the TCP clients",
    "S-C13-6": "C14 rule: a cancellation delivered inside a close operation is re-raised at one of the next checkpoints; C13 statement 'libclose' (the server-side client's aclose() as a blocking operation of the generated programs)",
    "S-C18-6": "C18 restart on a fixed address (standalone and async templates), the server's end closing first so that its connections are in TIME_WAIT on the listening address",
    "S-C20-6": "none: the change is in the blocking API's lock_with_timeout (C20 is about asynchronous sends); C12's lock-timeout scenario catches it",
    "S-C15-5": "none for C15: the change re-opens the defect repaired by c26d018 in the asyncio socket adapter (bytes written into the caller's buffer in the iteration in which the waiting task is cancelled); C10 drives that adapter over real sockets, including the server's request receiver with yielded timeouts, and catches it; C15 drives the server over in-memory transports",
    "S-C03-6": "C03 two reader threads on the blocking client: one blocked in recv_packet(None), the other polling with timeout 0 / 0.05 / the default iterator (same change as S-C20-6, which C12 catches on the send side; threads are outside C03's stated quantifier, the scenario was added all the same)",
    "S-C07-6": "C07 asynchronous endpoint polled under a deadline (move_on_after / timeout / task cancellation) while an endless unterminated frame drips (C10 and C03 caught it before as lost data)",
    "S-C10-6": "C15 waits bounded by a timeout() / move_on_after() scope around the yield, in handle() and in on_connection() generators; C10 server request receiver also through the high-level handler wrapper (handle / on_connection generators)",
    "S-C11-6": "C11 timeout value math.inf; the harness's virtual lock now refuses what threading.Lock refuses (it had accepted an infinite timeout)",
    "S-C14-6": "C14 server teardown variants '+sender': an application task suspended in send_packet() on the same client when the connection's task ends (exception, end-of-stream, server cancelled)",
    "S-C15-6": "none for C15: the change is in the TLS transport's receive path (a cancelled receive writes EOF into the read BIO); C10's tls layer catches it; C15 drives the server over plain in-memory transports",
    "S-C17-6": "C17 distinct values for ssl_handshake_timeout / ssl_shutdown_timeout and the rule 'a stalled handshake is dropped at the handshake timeout' (virtual time, asynchronous server); StandaloneTCPNetworkServer with TLS and a stalled client (real time, verdict at 30x the configured value)",
    "S-C19-6": "C19 real connects: the stock AsyncIODNSResolver.connect_socket() over loopback with a black-holed address (full accept queue), a refused port and a reachable server; census of leftover tasks and selector registrations, then a fresh connection that reuses the abandoned descriptor numbers",
    "S-C01-6": "none for C01: the change is in the asyncio socket adapter's internal read buffer (backlog larger than the reader's buffer), outside C01's producers / consumers; C10 and C03 drive that adapter over real sockets and catch it",
    "S-C05-6": "none for C05: RecursionError escaping the one-shot JSON deserializer on a deeply nested datagram is a foreign exception on malformed input, C06's subject; C06 catches it (C05's generators do not produce resource-exhausting inputs)",
    "S-C06-6": "NOT CAUGHT by any check: StringLineSerializer(debug=True) loses the remainder after an undecodable line; no harness configuration enables the serializers' debug option (recorded as a coverage gap in section 10)",
    "S-C08-7": "C12: a send lock left held by a returned call is now a verdict instead of a hung worker (close() of the harness runs aside with a bound; common join deadline); before that the check hung for 40 minutes (2 x watchdog) and ended inconclusive. The quick tier still needs more than 25 minutes on this change; C11's virtual lock does not check that the lock is released (gap recorded in section 10)",
    "S-C16-7": "not caught when it was confirmed (CancelScope.__exit__ keeps the delayed re-cancel when a shielded body ends with an ordinary exception after the deadline; C13's generated programs have no statement that raises inside a shielded section). The C13 template shielded_failure_case was written for that shape and at once found a genuine defect of the unchanged tree in the same branch (leftover cancelling() count, repaired by 0e12a13); on the repaired tree the seed's patch no longer has its effect, so it is not listed as caught",
    "S-C20-7": "NOT CAUGHT by any check: ThreadsPortal.run_coroutine_soon() future.cancel() from a foreign thread uses call_soon() (no loop wake-up); no check cancels a portal future while the loop is idle (recorded as a coverage gap in section 10)",
    "S-C04-2": "C04 interrupted send then resume (C20 caught it before)",
}
rows = []
for d in sorted(glob.glob(os.path.join(ROOT, "seeded", "S-*"))):
    sid = os.path.basename(d)
    meta = json.load(open(os.path.join(d, "meta.json")))
    patch = open(os.path.join(d, "patch.diff")).read()
    files = [m.replace("src/easynetwork/", "") for m in re.findall(r"^\+\+\+ b/(\S+)", patch, re.M)]
    hunk = re.findall(r"^@@.*@@ (.*)$", patch, re.M)
    where = (hunk[0].strip()[:60] if hunk else "")
    rows.append((sid, meta.get("property", sid[2:5]), ", ".join(files), where, "yes" if meta.get("confirmed") else "no", ", ".join(meta.get("caught_by", [])) or "**none**", NEEDED.get(sid, "")))
out = ["| seed | property | file | site | confirmed (demo + suite) | caught by (quick tier) | strengthening it needed |", "|---|---|---|---|---|---|---|"]
for r in rows:
    out.append("| " + " | ".join(r) + " |")
text = "\n".join(out)
p = os.path.join(ROOT, "DESIGN.md")
s = open(p).read()
a, b = "<!-- SEEDTABLE:BEGIN -->", "<!-- SEEDTABLE:END -->"
if a in s:
    s = s[: s.index(a) + len(a)] + "\n" + text + "\n" + s[s.index(b):]
else:
    s += "\n### 9.7 Table of seeded changes (generated by tools/seedtable.py)\n\n" + a + "\n" + text + "\n" + b + "\n"
open(p, "w").write(s)
print(f"{len(rows)} seeds")
