#!/usr/bin/env python3
"""Regenerate MANIFEST.json 'checks' and 'not_applicable' from the check modules present (checks/cXX.py)."""
import importlib, json, os, sys
ROOT = os.path.dirname(os.path.dirname(os.path.abspath(__file__)))
sys.path[:0] = [ROOT, "/repo/src"]
man = json.load(open(os.path.join(ROOT, "MANIFEST.json")))
props = [json.loads(l) for l in open(os.path.join(ROOT, "properties.jsonl"))]
checks, na, served = [], [], []
for p in props:
    pid = p["id"]
    path = os.path.join(ROOT, "checks", f"{pid.lower()}.py")
    if not os.path.exists(path):
        na.append({"property_id": pid, "reason": "check not built yet (planned in DESIGN.md section 3; runtime monitoring applies)"})
        continue
    m = importlib.import_module(f"checks.{pid.lower()}")
    if getattr(m, "NOT_CLAIMED", None):
        na.append({"property_id": pid, "reason": m.NOT_CLAIMED})
        continue
    served.append(pid)
    checks.append({
        "property_id": pid,
        "quick_cmd": f"./check {pid} --tier quick",
        "thorough_cmd": f"./check {pid} --tier thorough",
        "evidence_file": f"/verif/evidence/{pid}.json",
        "replay_cmd_template": f"./check {pid} --replay {{path}}",
        "engine": "vlib",
        "level_claimed": {"category": m.LEVEL, "text": getattr(m, "LEVEL_TEXT", (m.__doc__ or "").strip().split("\n\n", 1)[-1].replace("\n", " ")), "design_ref": f"DESIGN.md section 3 / {pid}"},
        "level_note": getattr(m, "LEVEL_NOTE", "held on the executions observed only; trusted base: CPython 3.12.1, the harness under /verif/vlib, the assumptions listed in the evidence file"),
        "technique": getattr(m, "TECHNIQUE", "runtime monitoring: generated workloads on the real code + deterministic oracle over observed events"),
    })
man["checks"] = checks
man["not_applicable"] = na
man["engines"][0]["serves_properties"] = served
json.dump(man, open(os.path.join(ROOT, "MANIFEST.json"), "w"), indent=1)
print("claimed:", served, "not claimed:", [n["property_id"] for n in na])
