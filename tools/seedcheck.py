#!/usr/bin/env python3
"""Confirm a seeded change and run checks against it.
   tools/seedcheck.py <dir with patch.diff demo.py notes.md> <seed-id> <property> [check ids...]
Creates a scratch worktree of /repo HEAD under /tmp, applies the patch, verifies: demo exits !=0 with the patch and 0 without; the
pinned suite's stable_pass set still passes with the patch; then runs the given checks (default: the property's) against the patched
sources through VERIF_REPO_SRC. Stores /verif/seeded/<seed-id>/{patch.diff,demo.py,notes.md,meta.json}. Removes the worktree."""
import json, os, shutil, subprocess, sys, xml.etree.ElementTree as ET

def sh(cmd, **kw):
    return subprocess.run(cmd, capture_output=True, text=True, **kw)

def main():
    src, sid, prop, *checks = sys.argv[1:]
    checks = checks or [prop]
    wt = f"/tmp/sv-{sid}"
    sh(["git", "-C", "/repo", "worktree", "remove", "--force", wt])
    r = sh(["git", "-C", "/repo", "worktree", "add", "--detach", wt, "HEAD"])
    assert r.returncode == 0, r.stderr
    meta = {"seed_id": sid, "property": prop, "base_commit": sh(["git", "-C", "/repo", "rev-parse", "--short", "HEAD"]).stdout.strip()}
    try:
        shutil.copy("/repo/src/easynetwork/version.py", f"{wt}/src/easynetwork/version.py")
        env = dict(os.environ, PYTHONPATH=f"{wt}/src")
        demo = os.path.join(src, "demo.py")
        r0 = sh(["/venv/bin/python", demo], env=env, cwd=wt, timeout=600)
        meta["demo_without_patch_rc"] = r0.returncode
        ap = sh(["git", "-C", wt, "apply", os.path.join(src, "patch.diff")])
        meta["patch_applies"] = ap.returncode == 0
        if ap.returncode != 0:
            print("PATCH DOES NOT APPLY", ap.stderr)
            return 2
        r1 = sh(["/venv/bin/python", demo], env=env, cwd=wt, timeout=600)
        meta["demo_with_patch_rc"] = r1.returncode
        meta["demo_with_patch_tail"] = (r1.stdout + r1.stderr)[-400:]
        # pinned suite with the patch
        out = f"/tmp/sv-{sid}.junit.xml"
        base = json.load(open("/root/.vp/BASELINE.json"))
        want = set(base["stable_pass"])
        sh(["/venv/bin/python", "-m", "pytest", "-q", "-p", "no:cacheprovider", "--timeout=900", "--continue-on-collection-errors", "-n", "8", f"--junitxml={out}"], cwd=wt, env=env)
        passed = set()
        for tc in ET.parse(out).getroot().iter("testcase"):
            if not any(ch.tag in ("failure", "error", "skipped") for ch in tc):
                passed.add(f"{tc.get('classname')}::{tc.get('name')}")
        os.unlink(out)
        missing = sorted(want - passed)
        meta["suite_stable_pass_missing"] = missing[:10]
        meta["suite_ok"] = not missing
        # checks
        meta["checks"] = {}
        env2 = dict(os.environ, VERIF_REPO_SRC=f"{wt}/src", VERIF_NO_EVIDENCE="1")
        for c in checks:
            p = sh(["/verif/check", c], env=env2, cwd="/verif")
            lines = [l for l in p.stdout.splitlines() if l.startswith(("VIOLATION", "INCONCLUSIVE")) or (l.startswith("   ") and "counter" not in l)]
            meta["checks"][c] = {"rc": p.returncode, "lines": [l[:260] for l in lines[:6]]}
            print(f"== {c}: rc={p.returncode}")
            for l in lines[:6]:
                print("    ", l[:260])
        meta["caught_by"] = [c for c, v in meta["checks"].items() if v["rc"] == 1]
        meta["confirmed"] = bool(meta["demo_without_patch_rc"] == 0 and meta["demo_with_patch_rc"] != 0 and meta["suite_ok"])
        dst = f"/verif/seeded/{sid}"
        os.makedirs(dst, exist_ok=True)
        for f in ("patch.diff", "demo.py", "notes.md"):
            if os.path.exists(os.path.join(src, f)) and os.path.abspath(src) != os.path.abspath(dst):
                shutil.copy(os.path.join(src, f), os.path.join(dst, f))
        meta["needs"] = "see notes.md"
        meta["what_was_run"] = "demo.py without/with the patch in a scratch worktree of /repo HEAD; pinned pytest suite (-n 8) with the patch compared to BASELINE stable_pass; ./check <id> --tier quick with VERIF_REPO_SRC pointing at the patched sources"
        json.dump(meta, open(os.path.join(dst, "meta.json"), "w"), indent=1)
        print(json.dumps({k: v for k, v in meta.items() if k in ("confirmed", "demo_without_patch_rc", "demo_with_patch_rc", "suite_ok", "caught_by")}))
    finally:
        sh(["git", "-C", "/repo", "worktree", "remove", "--force", wt])
        shutil.rmtree(wt, ignore_errors=True)

sys.exit(main())
