#!/usr/bin/env python3
"""Final pass over the seeded changes: for every seed, apply its patch to a scratch copy of /repo/src at HEAD and run the check of its
property plus the checks given in EXTRA (quick tier, VERIF_REPO_SRC); merge the results into seeded/<id>/meta.json (`checks`,
`caught_by`, `matrix_commit`). The demo / pinned-suite confirmation recorded by tools/seedcheck.py is left untouched.
   tools/seedmatrix.py [seed ids...]     (default: all)"""
import glob, json, os, shutil, subprocess, sys, tempfile

ROOT = os.path.dirname(os.path.dirname(os.path.abspath(__file__)))
EXTRA = {
    "C01": ["C02", "C07"], "C02": ["C01"], "C03": ["C10"], "C04": ["C11", "C20"], "C05": [], "C06": ["C02"], "C07": ["C01"],
    "C08": ["C12"], "C09": [], "C10": ["C03", "C15"], "C11": ["C04"], "C12": [], "C13": ["C19"], "C14": [], "C15": ["C10"],
    "C16": ["C17"], "C17": ["C16"], "C18": [], "C19": ["C13"], "C20": ["C04"],
}


def main() -> int:
    ids = sys.argv[1:] or [os.path.basename(d) for d in sorted(glob.glob(os.path.join(ROOT, "seeded", "S-*")))]
    head = subprocess.run(["git", "-C", "/repo", "rev-parse", "--short", "HEAD"], capture_output=True, text=True).stdout.strip()
    for sid in ids:
        d = os.path.join(ROOT, "seeded", sid)
        meta = json.load(open(os.path.join(d, "meta.json")))
        prop = meta["property"]
        tmp = tempfile.mkdtemp(prefix="seedmx-", dir="/root/scratch" if os.path.isdir("/root/scratch") else None)
        try:
            shutil.copytree("/repo/src", os.path.join(tmp, "src"))
            ap = subprocess.run(["patch", "-p1", "-s", "-d", tmp, "-i", os.path.join(d, "patch.diff")], capture_output=True, text=True)
            if ap.returncode != 0:
                print(f"{sid}: patch does not apply to HEAD any more ({ap.stdout.strip()[:120]})")
                meta["matrix_note"] = f"patch does not apply to {head}"
                json.dump(meta, open(os.path.join(d, "meta.json"), "w"), indent=1)
                continue
            env = dict(os.environ, VERIF_REPO_SRC=os.path.join(tmp, "src"), VERIF_NO_EVIDENCE="1")
            checks = meta.get("checks", {})
            for c in [prop] + EXTRA.get(prop, []):
                p = subprocess.run([os.path.join(ROOT, "check"), c], env=env, cwd=ROOT, capture_output=True, text=True)
                lines = [l for l in p.stdout.splitlines() if l.startswith(("VIOLATION", "INCONCLUSIVE")) or (l.startswith("   ") and "counter" not in l)]
                checks[c] = {"rc": p.returncode, "lines": [l[:260] for l in lines[:4]]}
            meta["checks"] = checks
            meta["caught_by"] = sorted(c for c, v in checks.items() if v["rc"] == 1)
            meta["matrix_commit"] = head
            json.dump(meta, open(os.path.join(d, "meta.json"), "w"), indent=1)
            print(f"{sid}: caught_by={meta['caught_by']}" + ("" if prop in meta["caught_by"] else f"   <-- not caught by {prop}"))
        finally:
            shutil.rmtree(tmp, ignore_errors=True)
    return 0


sys.exit(main())
