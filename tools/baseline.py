#!/usr/bin/env python3
"""Run the repository's pinned suite (guard OFF) and compare with /root/.vp/BASELINE.json stable_pass.
exit 0 iff every stable_pass test passed."""
import json, os, subprocess, sys, tempfile, xml.etree.ElementTree as ET

def main():
    base = json.load(open("/root/.vp/BASELINE.json"))
    want = set(base["stable_pass"])
    out = tempfile.mktemp(suffix=".junit.xml")
    env = {k: v for k, v in os.environ.items() if k != "EASYNETWORK_VERIF"}
    extra = sys.argv[1:]
    cmd = ["/venv/bin/python", "-m", "pytest", "-q", "-p", "no:cacheprovider", "--timeout=900",
           "--continue-on-collection-errors", f"--junitxml={out}", *extra]
    p = subprocess.run(cmd, cwd="/repo", env=env, capture_output=True, text=True)
    passed = set()
    for tc in ET.parse(out).getroot().iter("testcase"):
        if not any(ch.tag in ("failure", "error", "skipped") for ch in tc):
            passed.add(f"{tc.get('classname')}::{tc.get('name')}")
    os.unlink(out)
    missing = sorted(want - passed)
    print(p.stdout.strip().splitlines()[-1] if p.stdout.strip() else "")
    print(f"stable_pass={len(want)} passed_now={len(passed)} baseline_tests_not_passing={len(missing)}")
    for m in missing[:30]:
        print("  MISSING", m)
    return 1 if missing else 0

sys.exit(main())
