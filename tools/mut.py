#!/usr/bin/env python3
"""Development helper (not a registered check): run checks against a scratch copy of /repo/src with one
textual mutation applied.   tools/mut.py <file under src/easynetwork> <old> <new> -- C01 [C02 ...] [--tier quick]
The scratch copy lives under /tmp and is removed afterwards; evidence files are restored."""
import os, shutil, subprocess, sys, tempfile

def main():
    args = sys.argv[1:]
    sep = args.index("--")
    file, old, new = args[:sep]
    rest = args[sep + 1:]
    ids = [a for a in rest if a.upper().startswith("C") and len(a) <= 4]
    extra = [a for a in rest if a not in ids]
    tmp = tempfile.mkdtemp(prefix="mut-")
    try:
        shutil.copytree("/repo/src", os.path.join(tmp, "src"))
        path = os.path.join(tmp, "src", "easynetwork", file)
        s = open(path).read()
        if s.count(old) != 1:
            print(f"pattern occurs {s.count(old)} times in {file}", file=sys.stderr)
            return 3
        open(path, "w").write(s.replace(old, new))
        env = dict(os.environ, VERIF_REPO_SRC=os.path.join(tmp, "src"), VERIF_NO_EVIDENCE="1")
        rc = 0
        for i in ids:
            p = subprocess.run(["/verif/check", i, *extra], env=env, capture_output=True, text=True)
            lines = [l for l in p.stdout.splitlines() if l.startswith(("VIOLATION", "KNOWN", "INCONCLUSIVE", "   ")) and "counter" not in l]
            print(f"== {i}: rc={p.returncode}")
            for l in lines[:8]:
                print("   ", l[:300])
            if p.returncode not in (0, 1, 2):
                print(p.stdout[-2000:], p.stderr[-2000:])
        return rc
    finally:
        shutil.rmtree(tmp, ignore_errors=True)

sys.exit(main())
