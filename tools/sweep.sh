#!/bin/sh
# development helper: run every check in a tier over some seeds and print one line per run
TIER=${1:-quick}; shift
SEEDS=${*:-0}
cd "$(dirname "$0")/.."
for s in $SEEDS; do
for c in C01 C02 C03 C04 C05 C06 C07 C08 C09 C10 C11 C12 C13 C14 C15 C16 C17 C18 C19 C20; do
  t0=$(date +%s)
  out=$(VERIF_SEED=$s VERIF_NO_EVIDENCE=1 ./check $c --tier $TIER 2>&1); rc=$?
  t1=$(date +%s)
  echo "== $c seed=$s tier=$TIER rc=$rc $((t1-t0))s"
  echo "$out" | grep -E "^VIOLATION|^INCONCLUSIVE|^   [a-zA-Z0-9].*: " | grep -v "^   counter" | cut -c1-300 | head -8
done
done
