"""C13 — cancel scopes interrupt on time, swallow only their own cancel, honour shields.

Monitor: generated scope programs (nested move_on_after / timeout / open scopes with deadlines, sleeps, yields, shielded
sections, explicit scope.cancel() / reschedule, task-group children) run on the virtual-time loop against the real
AsyncIOBackend, with an external task.cancel() at a chosen instant. Every statement start/end, scope enter/exit (with the
exception entering the exit, the return value, cancel_called, cancelled_caught, task.cancelling()) is traced with virtual time;
the trace is checked against invariants I1..I7 (see DESIGN.md section 3 / C13).
"""

from __future__ import annotations

import asyncio
import math
import random
from typing import Any

from easynetwork.lowlevel.api_async.backend._asyncio.backend import AsyncIOBackend

from vlib import vloop

PROPERTY = "C13"
LEVEL = "exploration"
RULE = (
    "case = (program: statements from {sleep d, coro_yield, shielded yield, scope(kind, delay){...}, ignore_cancellation{...}, "
    "scope.cancel(), scope.reschedule(), task group with children, mark}; depth <= 4, <= 12 statements, durations multiples of 0.5 s) "
    "x (external task.cancel() at a multiple of 0.25 s, or none). non-trivial = the program contains a scope whose deadline expires or "
    "that is cancelled while a statement is in progress, or an external cancel that lands while the program is running; distinct = "
    "distinct (program, external cancel time)"
)
ASSUMPTIONS = [
    "a statement is 'shielded' iff it runs inside any ignore_cancellation, even when the cancelled scope is itself nested inside the shield (documented: 'protect a coroutine from being cancelled', and the abstract CancelScope has no shielded scopes)",
    "virtual time; all durations are multiples of 0.5 s, comparisons use a 0.05 s tolerance",
    "asyncio backend only (trio is not installed)",
]
REQUIRED = [
    "programs_with_deadline_expiry",
    "programs_with_explicit_cancel",
    "programs_with_shield",
    "programs_with_external_cancel",
    "programs_with_children",
    "programs_with_reschedule",
    "scope_exits_checked",
    "timeout_scopes_checked",
    "i1_interrupt_checks",
    "i7_shield_checks",
    "i6_leftover_checks",
    "i5_external_checks",
    "external_cancel_coinciding_with_deadline",
    "recv_vs_cancel_cases",
    "recv_read_then_cancel_orders",
    "shielded_failure_cases",
    "shielded_operation_outlived_the_deadline",
]
WATCHDOG = {"quick": 900, "thorough": 7200}
EPS = 0.05


# ------------------------------------------------------------------------------------------ generation


def gen_block(rng: random.Random, depth: int, scopes: list[str], budget: list[int], counter: list[int], in_child: bool = False) -> list:
    out = []
    n = rng.randint(1, 4 if depth else 5)
    for _ in range(n):
        if budget[0] <= 0:
            break
        budget[0] -= 1
        r = rng.random()
        if r < 0.30:
            out.append(["sleep", rng.choice([0, 0.5, 0.5, 1.0, 1.5, 2.0, 3.0])])
        elif r < 0.34:
            # a real blocking operation of the asyncio back-end: WriteFlowControl.drain() on a paused transport whose
            # resume_writing() notification is scripted d seconds later (d on the same grid as the deadlines)
            out.append(["drain", rng.choice([0.5, 0.5, 1.0, 1.5, 2.0, 3.0])])
        elif r < 0.36:
            # a blocking operation of the library above the back-end: aclose() of the client object a TCP server hands to its
            # request handlers, over a transport whose own close takes d seconds
            out.append(["libclose", rng.choice([0.5, 1.0, 1.5, 2.0])])
        elif r < 0.38:
            out.append(["yield"])
        elif r < 0.42:
            out.append(["shyield"])
        elif r < 0.62 and depth < 4:
            counter[0] += 1
            name = f"s{counter[0]}"
            kind = rng.choice(["move_on_after", "move_on_after", "timeout", "open"])
            delay = rng.choice([0, 0.5, 1.0, 1.5, 2.0, 3.0]) if kind != "open" else None
            out.append(["scope", kind, delay, name, gen_block(rng, depth + 1, scopes + [name], budget, counter, in_child)])
        elif r < 0.72 and depth < 4:
            out.append(["shield", gen_block(rng, depth + 1, scopes, budget, counter, in_child)])
        elif r < 0.80 and scopes:
            out.append(["cancel", rng.choice(scopes)])
        elif r < 0.86 and scopes:
            out.append(["resched", rng.choice(scopes), rng.choice([0, 0.5, 1.0, 2.0, math.inf])])
        elif r < 0.93 and depth < 3 and not in_child:
            kids = [gen_block(rng, depth + 2, [], budget, counter, True) for _ in range(rng.randint(1, 2))]
            out.append(["group", kids, gen_block(rng, depth + 1, scopes, budget, counter, in_child)])
        else:
            out.append(["sleep", rng.choice([0.5, 1.0])])
    return out


def gen_program(rng: random.Random) -> tuple[list, float | None]:
    prog = gen_block(rng, 0, [], [12], [0])
    ext = rng.choice([None, None] + [x * 0.25 for x in range(0, 17)])
    return prog, ext


# ------------------------------------------------------------------------------------------ execution


class Trace:
    def __init__(self, loop) -> None:
        self.loop = loop
        self.ev: list[dict] = []
        self.scopes: dict[str, Any] = {}  # name -> scope object (ground truth for cancel_called at every event)

    def add(self, _k: str, **kw) -> int:
        kw["k"] = _k
        kw["t"] = round(self.loop.time(), 4)
        kw["i"] = len(self.ev)
        kw["it"] = self.loop.iteration
        kw["cc"] = [n for n, sc in self.scopes.items() if sc.cancel_called()]
        self.ev.append(kw)
        return kw["i"]


_SOCKS = None


class Runner:
    def __init__(self, loop, backend, trace: Trace) -> None:
        self.loop, self.backend, self.tr = loop, backend, trace
        self.scopes: dict[str, Any] = trace.scopes

    async def _drain(self, d: float) -> None:
        from easynetwork.lowlevel.api_async.backend._asyncio._flow_control import WriteFlowControl

        class _T:
            def is_closing(self) -> bool:
                return False

        wf = WriteFlowControl(_T(), self.loop)  # type: ignore[arg-type]
        wf.pause_writing()
        h = self.loop.call_at(self.loop.time() + d, wf.resume_writing)
        try:
            await wf.drain()
        finally:
            h.cancel()

    async def _libclose(self, d: float) -> None:
        import socket as _socket

        from easynetwork.lowlevel.api_async.servers.stream import ConnectedStreamClient
        from easynetwork.lowlevel._stream import StreamDataProducer
        from easynetwork.lowlevel.socket import new_socket_address
        from easynetwork.protocol import StreamProtocol
        from easynetwork.serializers import StringLineSerializer
        from easynetwork.servers.async_tcp import _ConnectedClientAPI

        from vlib import memtransport

        global _SOCKS
        if _SOCKS is None:
            from vlib import netutil

            _SOCKS = netutil.tcp_pair(nodelay=False)  # only the attributes are read; one pair per worker process
        m = memtransport.MemStreamTransport(self.backend)
        m.use_socket_extras(_SOCKS[0])
        m.aclose_script = [("sleep", d)]
        low = ConnectedStreamClient(_transport=m, _producer=StreamDataProducer(StreamProtocol(StringLineSerializer())))
        api = _ConnectedClientAPI(new_socket_address(_SOCKS[0].getpeername(), _socket.AF_INET), low)
        await api.aclose()

    async def block(self, body: list, path: str, enclosing: tuple, shielded: bool, task_tag: str) -> None:
        for idx, st in enumerate(body):
            sid = f"{path}.{idx}"
            op = st[0]
            if op in ("sleep", "yield", "shyield", "drain", "libclose"):
                self.tr.add("start", id=sid, op=op, d=st[1] if op in ("sleep", "drain", "libclose") else 0, enc=enclosing, sh=shielded or op == "shyield", task=task_tag)
                try:
                    if op == "sleep":
                        await self.backend.sleep(st[1])
                    elif op == "drain":
                        await self._drain(st[1])
                    elif op == "libclose":
                        await self._libclose(st[1])
                    elif op == "yield":
                        await self.backend.coro_yield()
                    else:
                        await self.backend.cancel_shielded_coro_yield()
                except asyncio.CancelledError:
                    self.tr.add("end", id=sid, out="cancelled", task=task_tag)
                    raise
                self.tr.add("end", id=sid, out="ok", task=task_tag)
            elif op == "mark":
                self.tr.add("mark", id=sid)
            elif op == "cancel":
                sc = self.scopes.get(st[1])
                if sc is not None:
                    self.tr.add("cancel-call", scope=st[1])
                    sc.cancel()
            elif op == "resched":
                sc = self.scopes.get(st[1])
                if sc is not None:
                    when = self.loop.time() + st[2]
                    self.tr.add("resched", scope=st[1], when=when if when != math.inf else "inf")
                    sc.reschedule(when)
            elif op == "shield":
                self.tr.add("shield-enter", id=sid, task=task_tag)
                try:
                    await self.backend.ignore_cancellation(self.block(st[1], sid, enclosing, True, task_tag))
                finally:
                    self.tr.add("shield-exit", id=sid, task=task_tag)
            elif op == "scope":
                await self.scope(st, sid, enclosing, shielded, task_tag)
            elif op == "group":
                await self.group(st, sid, enclosing, shielded, task_tag)

    async def scope(self, st: list, sid: str, enclosing: tuple, shielded: bool, task_tag: str) -> None:
        _, kind, delay, name, body = st
        task = asyncio.current_task()
        entry_c = task.cancelling()
        if kind == "open":
            sc = self.backend.open_cancel_scope()
            cm: Any = sc
        elif kind == "move_on_after":
            sc = self.backend.move_on_after(delay)
            cm = sc
        else:
            cm = self.backend.timeout(delay)
            sc = cm.scope
        self.scopes[name] = sc
        self.tr.add("scope-enter", scope=name, kind=kind, deadline=("inf" if sc.when() == math.inf else round(sc.when(), 4)), entry_c=entry_c, enc=enclosing, sh=shielded, task=task_tag)
        cm.__enter__()
        exc_in = None
        try:
            await self.block(body, sid, enclosing + (name,), shielded, task_tag)
        except BaseException as exc:  # noqa: BLE001
            exc_in = exc
        raised_timeout = False
        swallowed = False
        try:
            if exc_in is None:
                r = cm.__exit__(None, None, None)
            else:
                r = cm.__exit__(type(exc_in), exc_in, exc_in.__traceback__)
            swallowed = bool(r)
        except TimeoutError as te:
            if kind != "timeout":
                raise
            raised_timeout = True
            swallowed = True
        self.tr.add(
            "scope-exit", scope=name, kind=kind, exc_in=(type(exc_in).__name__ if exc_in is not None else None), swallowed=swallowed,
            cancel_called=sc.cancel_called(), caught=sc.cancelled_caught(), raised_timeout=raised_timeout, c_after=task.cancelling(), entry_c=entry_c,
            msg=(str(exc_in.args[0]) if isinstance(exc_in, asyncio.CancelledError) and exc_in.args else None), own_id=f"{id(sc):x}", task=task_tag, sh=shielded,
        )
        if exc_in is not None and not swallowed:
            raise exc_in

    async def group(self, st: list, sid: str, enclosing: tuple, shielded: bool, task_tag: str) -> None:
        _, kids, body = st
        self.tr.add("group-enter", id=sid, task=task_tag)
        try:
            async with self.backend.create_task_group() as tg:
                for ci, kb in enumerate(kids):
                    # a child task is not itself inside the parent's scopes or shields: it is only reached through the
                    # task group when the parent task is interrupted (I8 checks that it never outlives the group)
                    tg.start_soon(self.child, kb, f"{sid}.c{ci}", (), False)
                await self.block(body, sid + ".b", enclosing, shielded, task_tag)
        finally:
            self.tr.add("group-exit", id=sid, task=task_tag)

    async def child(self, body: list, path: str, enclosing: tuple, shielded: bool) -> None:
        try:
            await self.block(body, path, enclosing, shielded, path)
        except asyncio.CancelledError:
            raise


def execute(prog: list, ext: float | None) -> dict:
    res: dict[str, Any] = {}

    async def main(loop):
        backend = AsyncIOBackend()
        tr = Trace(loop)
        runner = Runner(loop, backend, tr)
        res["trace"] = tr.ev

        async def program():
            task = asyncio.current_task()
            res["entry_c"] = task.cancelling()
            try:
                await runner.block(prog, "p", (), False, "main")
            finally:
                res["c_at_end"] = task.cancelling()
                tr.add("program-end")
            # I6 probe: nothing is pending any more
            if not res.get("ext_requested"):
                tr.add("probe-start")
                for _ in range(3):
                    await backend.coro_yield()
                await backend.sleep(0.5)
                tr.add("probe-end")
                res["probe_ok"] = True

        t = asyncio.ensure_future(program())
        if ext is not None:

            def do_ext():
                if not t.done():
                    res["ext_requested"] = True
                    tr.add("ext-cancel")
                    t.cancel()

            loop.call_at(ext, do_ext)
        try:
            await t
            res["outcome"] = "ok"
        except asyncio.CancelledError:
            if t.cancelled():
                res["outcome"] = "cancelled"
            else:
                raise
        except BaseException as exc:  # noqa: BLE001
            res["outcome"] = f"exc:{type(exc).__name__}: {exc}"
        res["end_t"] = loop.time()

    try:
        vloop.run(main)
    except vloop.Quiescent as exc:
        res["outcome"] = f"deadlock: {exc}"
    return res


# ------------------------------------------------------------------------------------------ invariants


def check(prog: list, ext: float | None, res: dict, ctx=None) -> list[tuple[str, str]]:
    """returns [(key, description)]"""
    out: list[tuple[str, str]] = []
    tr = res.get("trace", [])
    outcome = res.get("outcome", "?")
    if outcome.startswith("deadlock") or outcome.startswith("exc:"):
        out.append(("crash-or-deadlock", outcome))
        return out

    def cnt(name: str, n: int = 1) -> None:
        if ctx is not None:
            ctx.count(name, n)

    # --- per-scope cancellation instants (event index and time), following reschedules in event order
    scope_info: dict[str, dict] = {}
    per_scope: dict[str, list] = {}
    for e in tr:
        if e["k"] == "scope-enter":
            scope_info[e["scope"]] = {"enter": e, "deadline": e["deadline"], "cancel_i": None, "cancel_t": None, "exit": None, "sh": e["sh"], "enc": e["enc"]}
            per_scope[e["scope"]] = []
        elif e["k"] in ("resched", "cancel-call", "scope-exit") and e["scope"] in per_scope:
            per_scope[e["scope"]].append(e)
    for name, si in scope_info.items():
        cur = si["deadline"]
        t_enter = si["enter"]["t"]
        done = False
        for e in per_scope[name]:
            if si["cancel_t"] is None and cur != "inf" and e["t"] > max(cur, t_enter) + EPS:
                si["cancel_t"] = max(cur, t_enter)  # the deadline passed before this event
            if e["k"] == "resched":
                if si["cancel_t"] is None:
                    cur = e["when"]
                    if cur != "inf" and cur <= e["t"] + 1e-9:
                        si["cancel_t"] = e["t"]  # rescheduled into the past: cancelled on the spot
                        si["cancel_i"] = e["i"]
            elif e["k"] == "cancel-call":
                if si["cancel_t"] is None:
                    si["cancel_i"], si["cancel_t"] = e["i"], e["t"]
            else:
                si["exit"] = e
                if si["cancel_t"] is None and e["cancel_called"]:
                    si["cancel_t"] = max(cur, t_enter) if cur != "inf" else e["t"]
                done = True
                break
        if not done and si["cancel_t"] is None and cur != "inf":
            si["cancel_t"] = max(cur, t_enter)
    ext_i = next((e["i"] for e in tr if e["k"] == "ext-cancel"), None)
    ext_t = next((e["t"] for e in tr if e["k"] == "ext-cancel"), None)

    # --- statements
    starts = {e["id"]: e for e in tr if e["k"] == "start"}
    ends = {e["id"]: e for e in tr if e["k"] == "end"}
    for sid, s in starts.items():
        e = ends.get(sid)
        if s["sh"]:
            # I7: every shielded statement runs to its end, sleeps last their full duration
            cnt("i7_shield_checks")
            if e is None:
                if not outcome.startswith("deadlock"):
                    out.append(("I7-shielded-statement-not-finished", f"shielded statement {sid} ({s['op']}) never finished"))
            elif e["out"] != "ok":
                out.append(("I7-shielded-statement-cancelled", f"shielded statement {sid} ({s['op']}) was cancelled at t={e['t']}"))
            elif s["op"] == "sleep" and e["t"] - s["t"] < s["d"] - EPS:
                out.append(("I7-shielded-sleep-cut-short", f"shielded sleep({s['d']}) {sid} lasted {e['t'] - s['t']}"))
            continue
        if e is None or e["out"] != "ok":
            continue
        # I1s (strict, order-based): a checkpoint statement never ends normally in a task step that begins after cancel() was
        # called on an enclosing scope: asyncio throws CancelledError into that step whatever the state of the awaited future
        # (cancel_called() ground truth at the end event; a cancel issued by this very task is delivered at the next statement)
        late = [n for n in s["enc"] if n in e["cc"] and n not in s["cc"] and scope_info.get(n) is not None]
        if late and s["op"] in ("sleep", "drain", "libclose") and s["d"] > 0:
            cnt("i1s_strict_checks")
            out.append(("I1s-completed-in-a-step-after-cancel", f"statement {sid} ({s['op']} {s['d']}) ended normally at t={e['t']} although scope {late[0]} had been cancelled while it was waiting (the operation swallowed the cancellation)"))
        # I1: ended normally although an enclosing scope was cancelled before it started / well before it ended
        for name in s["enc"]:
            si = scope_info.get(name)
            if si is None or si["cancel_t"] is None:
                continue
            cnt("i1_interrupt_checks")
            if si["cancel_i"] is not None:
                if si["cancel_i"] < s["i"]:
                    out.append(("I1-started-after-cancel-completed", f"statement {sid} ({s['op']} {s['d']}) started after scope {name}.cancel() and completed normally"))
                elif e["t"] > si["cancel_t"] + EPS:
                    out.append(("I1-not-interrupted", f"statement {sid} in progress when scope {name} was cancelled at {si['cancel_t']} completed normally at {e['t']}"))
            else:
                if s["t"] > si["cancel_t"] + EPS:
                    out.append(("I1-started-after-deadline-completed", f"statement {sid} ({s['op']} {s['d']}) started at {s['t']} after the deadline {si['cancel_t']} of scope {name} and completed normally"))
                elif e["t"] > si["cancel_t"] + EPS:
                    out.append(("I1-not-interrupted", f"statement {sid} in progress at the deadline {si['cancel_t']} of scope {name} completed normally at {e['t']}"))

    # --- scope exits: I2, I3, I4
    for name, si in scope_info.items():
        ex = si["exit"]
        if ex is None:
            continue
        cnt("scope_exits_checked")
        if ex["swallowed"] and not ex["cancel_called"] and not ex["raised_timeout"]:
            out.append(("I2-swallowed-without-cancel", f"scope {name} swallowed {ex['exc_in']} although it was never cancelled"))
        if ex["swallowed"] and ex["exc_in"] not in ("CancelledError", None) and "Group" not in str(ex["exc_in"]):
            out.append(("I2-swallowed-foreign-exception", f"scope {name} swallowed {ex['exc_in']}"))
        if not ex["cancel_called"] and ex["caught"]:
            out.append(("I2-caught-without-cancel", f"scope {name} reports cancelled_caught() without cancel_called()"))
        if ex["kind"] == "timeout":
            cnt("timeout_scopes_checked")
            if ex["raised_timeout"] != bool(ex["caught"]):
                out.append(("I4-timeout-mismatch", f"timeout scope {name}: TimeoutError raised={ex['raised_timeout']} but cancelled_caught()={ex['caught']}"))
        if ex["exc_in"] == "CancelledError" and ex["cancel_called"] and not ex["swallowed"]:
            # I3: must continue to an enclosing cancelled scope or an external cancel
            enclosing_cancelled = any(scope_info[n]["exit"] is None or scope_info[n]["exit"]["cancel_called"] for n in si["enc"] if n in scope_info) if si["enc"] else False
            parent_abort = ex["task"] != "main"  # a child task may be cancelled by its task group
            if not enclosing_cancelled and ext_i is None and not parent_abort:
                out.append(("I3-cancelled-scope-neither-caught-nor-propagated-to-cancelled-scope", f"scope {name} was cancelled, did not catch, and no enclosing scope / external request explains the CancelledError"))
        if ex["exc_in"] == "CancelledError" and not ex["cancel_called"] and ex["swallowed"]:
            out.append(("I2-not-cancelled-scope-swallowed-cancellation", f"scope {name} swallowed a cancellation that was not its own"))

    # --- I8 children never outlive their task group
    open_groups: dict[str, int] = {}
    for e in tr:
        if e["k"] == "group-exit":
            open_groups[e["id"]] = e["i"]
    for e in tr:
        if e["k"] in ("start", "end") and e.get("task", "main") != "main":
            gid = e["task"].rsplit(".c", 1)[0]
            if gid in open_groups and e["i"] > open_groups[gid]:
                out.append(("I8-child-outlives-task-group", f"child statement {e['id']} event after the task group {gid} was left"))
                break

    # --- I5 external cancel
    if ext_i is not None:
        cnt("i5_external_checks")
        later_unshielded = [s for s in starts.values() if not s["sh"] and s["task"] == "main" and (s["i"] > ext_i or (ends.get(s["id"]) is None or ends[s["id"]]["i"] > ext_i))]
        if outcome != "cancelled" and later_unshielded:
            # shape of the swallow (mechanism key), from the trace's ground truth (cancel_called() of every scope at every
            # event): did a scope of the main task become / stay cancelled between the request and the point where the
            # request should have been delivered (end of the first unshielded checkpoint after it)?
            ext_ev = tr[ext_i]
            deliver_i = min((ends[s_["id"]]["i"] for s_ in later_unshielded if s_["id"] in ends and ends[s_["id"]]["i"] > ext_i), default=len(tr) - 1)
            main_names = {n for n, si in scope_info.items() if si["enter"]["task"] == "main"}

            def active(n: str, i: int) -> bool:
                si = scope_info[n]
                return si["enter"]["i"] <= i and (si["exit"] is None or si["exit"]["i"] >= i)

            before = {n for n in main_names if n in tr[ext_i]["cc"] and active(n, ext_i)}
            first_seen: dict[str, dict] = {}
            for e in tr[ext_i : deliver_i + 1]:
                for n in e["cc"]:
                    if n in main_names and n not in first_seen and active(n, e["i"]):
                        first_seen[n] = e
            # the scope that swallowed a CancelledError after the request (if any) and when it was cancelled itself
            swallower = next((e for e in tr[ext_i:] if e["k"] == "scope-exit" and e.get("task") == "main" and e["exc_in"] == "CancelledError" and e["swallowed"]), None)
            late = None
            if swallower is not None and swallower["scope"] not in first_seen:
                # cancelled only after the delivery point, i.e. while the foreign CancelledError was already unwinding through it
                for e in tr[deliver_i : swallower["i"] + 1]:
                    if swallower["scope"] in e["cc"]:
                        late = e
                        break
            if not first_seen and late is None:
                key = "I5-external-cancel-swallowed:other"
            elif not first_seen:
                key = "I5-external-cancel-swallowed:scope-cancelled-while-unwinding"
            elif any(abs(e["t"] - ext_ev["t"]) <= EPS and n not in before for n, e in first_seen.items()) or any(
                si["cancel_t"] is not None and abs(si["cancel_t"] - ext_ev["t"]) <= EPS for n, si in scope_info.items() if n in first_seen
            ):
                key = "I5-external-cancel-swallowed:coincident-with-scope-cancel"
            elif before:
                key = "I5-external-cancel-swallowed:while-cancelled-scope-active"
            else:
                key = "I5-external-cancel-swallowed:scope-cancelled-before-delivery"
            if not _uses_shield(prog):
                # the shield-free form of this defect was repaired (known_findings.json, fixed): it must not come back
                key += ":no-shield"
            out.append((key, f"external task.cancel() at t={ext_ev['t']} but the task ended '{outcome}' although unshielded checkpoints followed ({[s['id'] for s in later_unshielded][:3]})"))
        if ctx is not None and any(si["cancel_t"] is not None and abs(si["cancel_t"] - tr[ext_i]["t"]) <= 1e-9 for si in scope_info.values()):
            ctx.count("external_cancel_coinciding_with_deadline")

    # --- I6 no leftover
    if ext_i is None and outcome == "ok":
        cnt("i6_leftover_checks")
        if res.get("c_at_end", 0) != res.get("entry_c", 0):
            # mechanism shape: was there a scope that was cancelled and whose exit saw no exception?
            quiet = [n for n, si in scope_info.items() if si["exit"] is not None and si["exit"]["cancel_called"] and si["exit"]["exc_in"] is None]
            key = "I6-leftover-cancelling:cancelled-scope-exit-without-exception" if quiet else "I6-leftover-cancelling:other"
            out.append((key, f"task.cancelling() == {res.get('c_at_end')} after the program (entry value {res.get('entry_c')}); scopes cancelled whose exit saw no exception: {quiet[:4]}"))
        if not res.get("probe_ok"):
            out.append(("I6-leftover-cancellation-delivered-later", "a checkpoint after the outermost scope exit did not complete normally"))
    elif ext_i is None and outcome == "cancelled":
        out.append(("I6-task-cancelled-without-external-request", "the task ended cancelled although nobody cancelled it from outside"))
    return out


def features(ctx, prog: list, ext: float | None, res: dict) -> bool:
    tr = res.get("trace", [])
    kinds = {e["k"] for e in tr}
    nontrivial = False
    if any(e["k"] == "scope-exit" and e["cancel_called"] for e in tr):
        nontrivial = True
    if "cancel-call" in kinds:
        ctx.count("programs_with_explicit_cancel")
    if any(e["k"] == "scope-exit" and e["cancel_called"] for e in tr) and "cancel-call" not in kinds:
        ctx.count("programs_with_deadline_expiry")
    if "shield-enter" in kinds:
        ctx.count("programs_with_shield")
    if "ext-cancel" in kinds:
        ctx.count("programs_with_external_cancel")
        nontrivial = True
    if "group-enter" in kinds:
        ctx.count("programs_with_children")
    if "resched" in kinds:
        ctx.count("programs_with_reschedule")
    return nontrivial


def plan(tier: str, seed: int) -> list[dict]:
    n = 900 if tier == "quick" else 40000
    return [{"seed": seed * 1000 + k, "programs": n} for k in range(16)]


def run_shard(params: dict, ctx) -> None:
    rng = random.Random(params["seed"])
    for i in range(params["programs"]):
        if ctx.should_stop(400):
            return
        prog, ext = gen_program(rng)
        res = execute(prog, ext)
        nontrivial = features(ctx, prog, ext, res)
        ctx.case(nontrivial, repr(prog), ext)
        for key, why in check(prog, ext, res, ctx):
            ctx.violation(key, why, {"program": prog, "ext": ext, "outcome": res.get("outcome"), "trace_tail": [{k: v for k, v in e.items() if k not in ("enc",)} for e in res.get("trace", [])[-14:]]})
        if i == 0:
            ctx.sample({"program": prog, "external_cancel_at": ext, "outcome": res.get("outcome")})
        if i % 10 == 0:
            why = shielded_failure_case(ctx, rng)
            if why:
                ctx.violation("I6-leftover-after-shielded-failure", why, {"program": [], "ext": None, "shielded_failure": True})
        if i % 30 == 0:
            why = recv_vs_cancel(ctx, rng)
            if why:
                ctx.violation("I1s-receive-completed-despite-cancel", why, {"program": [], "ext": None, "recv_vs_cancel": True})


def shielded_failure_case(ctx, rng: random.Random) -> str | None:
    """a shape the generated programs cannot express: the body of a move_on_after() / timeout() scope is a shielded operation
    (ignore_cancellation) that outlives the deadline and then ends with an ordinary exception (or normally), which the body handles.
    After the scope exits the task carries no leftover cancellation: the following checkpoints pass and cancelling() is 0."""
    d_op = rng.choice([0.5, 1.0, 1.5])
    d_scope = rng.choice([0.25, 0.5, 1.0, 2.0])
    fails = rng.random() < 0.7
    kind = rng.choice(["move_on_after", "timeout"])
    handled_inside = rng.random() < 0.6
    out: dict = {}

    async def op():
        await asyncio.sleep(d_op)
        if fails:
            raise ValueError("operation failed after the deadline")
        return "done"

    async def main(loop):
        backend = AsyncIOBackend()
        task = asyncio.current_task()

        async def body():
            if handled_inside:
                try:
                    return await backend.ignore_cancellation(op())
                except ValueError:
                    return "handled"
            return await backend.ignore_cancellation(op())

        try:
            if kind == "move_on_after":
                with backend.move_on_after(d_scope) as scope:
                    out["body"] = await body()
                out["caught"] = scope.cancelled_caught()
            else:
                try:
                    with backend.timeout(d_scope):
                        out["body"] = await body()
                except TimeoutError:
                    out["caught"] = True
        except ValueError:
            out["escaped"] = True
        out["cancelling_after_exit"] = task.cancelling()
        try:
            for _ in range(4):
                await asyncio.sleep(0)
            await asyncio.sleep(0.1)
            out["after"] = "ok"
        except asyncio.CancelledError:
            out["after"] = "cancelled"
            task.uncancel()

    try:
        vloop.run(main)
    except vloop.Quiescent as exc:
        return f"deadlock: {exc}"
    ctx.count("shielded_failure_cases")
    if d_scope < d_op:
        ctx.count("shielded_operation_outlived_the_deadline")
    shape = f"{kind}({d_scope}) around ignore_cancellation(operation lasting {d_op}, {'raising ValueError' if fails else 'returning'}{', handled in the body' if handled_inside else ''})"
    if out.get("after") != "ok":
        return f"{shape}: a stray CancelledError hit the task at a checkpoint after the scope had exited (leftover cancellation request)"
    if out.get("cancelling_after_exit"):
        return f"{shape}: task.cancelling() == {out['cancelling_after_exit']} right after the scope exited"
    return None


def recv_vs_cancel(ctx, rng: random.Random) -> str | None:
    """the asyncio socket adapter's receive as the blocking operation: the data and the cancellation request (scope.cancel() or
    task.cancel()) land in the same loop iteration, in both orders (driver and order monitor shared with C10). A receive that
    completes normally although the request was made while it was waiting has swallowed the cancellation."""
    from checks import c10
    from vlib import sockmon
    from vlib.runner import Ctx as _Ctx

    layer = rng.choice(["recv", "recv_into"])
    kind = rng.choice(["task", "scope"])
    nr = rng.randint(2, 4)
    sizes = [rng.choice([1, 5, 20]) for _ in range(nr)]
    slots = [rng.choice(["same-after-io", "same-before-io", "wakeup-iter", "iter-before"]) for _ in range(nr)]
    c10.async_layer(_Ctx({}), layer, rng, sizes, slots, kind)
    evs = list(sockmon.EVENTS)
    ctx.count("recv_vs_cancel_cases")
    if any(e[0] == "read-then-cancel" for e in evs):
        ctx.count("recv_read_then_cancel_orders")
    bad = [e for e in evs if e[0] == "completed-despite-cancel"]
    if bad:
        return f"{layer}() of the asyncio socket adapter completed normally although {'task.cancel()' if kind == 'task' else 'scope.cancel()'} had been called while it was waiting (slots {slots}): the operation swallowed the cancellation"
    return None


def _uses_shield(prog) -> bool:
    if isinstance(prog, (list, tuple)):
        if prog and prog[0] in ("shield", "shyield"):
            return True
        return any(_uses_shield(x) for x in prog)
    return False


def _fix_inf(x):
    if isinstance(x, list):
        return [_fix_inf(y) for y in x]
    if x == "Infinity" or x == "inf":
        return math.inf
    return x


def replay(witness: dict, ctx) -> None:
    if witness.get("recv_vs_cancel"):
        return  # depends on the shard's PRNG stream: re-run the check with the same seed
    prog = _fix_inf(witness["program"])
    res = execute(prog, witness["ext"])
    for key, why in check(prog, witness["ext"], res, None):
        ctx.violation(key, why, witness)
