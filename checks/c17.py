"""C17 — one client's failure (handler or connection set-up) never affects the others.

Monitor: real AsyncTCPNetworkServer (plain and TLS) and AsyncUDPNetworkServer on loopback sockets, driven on the virtual-time
loop. Matrix: exception class x hook position (on_connection coroutine / generator before & after its yield, handle() before
the first yield, after request i, while handling a thrown parse error or TimeoutError, on_disconnection) x connection set-up
faults (reset right after accept, half-open, garbage / stalled / truncated TLS handshake), each with three healthy clients
exchanging 20 request/response pairs concurrently. Oracle: every healthy exchange completes correctly, serve_forever keeps
running and accepts a new client afterwards; TCP: the failing client's connection is closed by the server and on_disconnection
ran iff on_connection completed; UDP: a later datagram from the failing address reaches a fresh handler generator.
"""

from __future__ import annotations

import asyncio
import logging
import random
import socket
import struct
from typing import Any

from easynetwork.exceptions import ClientClosedError, DatagramProtocolParseError, StreamProtocolParseError
from easynetwork.lowlevel.api_async.backend._asyncio.backend import AsyncIOBackend
from easynetwork.protocol import DatagramProtocol, StreamProtocol
from easynetwork.serializers import StringLineSerializer
from easynetwork.servers.async_tcp import AsyncTCPNetworkServer
from easynetwork.servers.async_udp import AsyncUDPNetworkServer
from easynetwork.servers.handlers import AsyncDatagramRequestHandler, AsyncStreamRequestHandler

from vlib import netutil, tlspeer, vloop

PROPERTY = "C17"
LEVEL = "fault_enumeration"
RULE = (
    "case = (server kind in {TCP, TCP+TLS, UDP}, fault: (exception class in 11 classes) x (hook position in 9 TCP / 5 UDP positions), "
    "or a connection set-up fault in {reset after accept, half-open, TLS garbage, TLS stalled handshake, TLS EOF mid-handshake}), "
    "with 3 healthy clients x 20 exchanges running concurrently and one late client afterwards. The matrix is enumerated completely. "
    "non-trivial = the fault was actually triggered (the hook ran and raised / the set-up fault reached the server) while healthy "
    "exchanges were in flight; distinct = distinct (kind, exception, position | fault)"
)
ASSUMPTIONS = [
    "real loopback sockets on the virtual-time loop; the loop going quiescent with a healthy exchange pending is the 'other clients affected' verdict, wall-clock time is never one",
    "healthy and failing clients are raw sockets (TLS: an independent stdlib SSLObject peer), not library clients",
]
REQUIRED = [
    "kind:tcp",
    "kind:tls",
    "kind:udp",
    "faults_triggered",
    "setup_faults",
    "healthy_exchanges_checked",
    "late_client_served",
    "on_disconnection_rule_checked",
    "udp_fresh_generator_checked",
    "udp_burst_behind_failing_datagram",
    "stalled_handshake_dropped_at_its_timeout",
    "standalone_stalled_handshake_dropped",
]
EXHAUSTIVE = {"quick": True, "thorough": False}
WATCHDOG = {"quick": 1200, "thorough": 7200}

HS_TIMEOUT = 0.3


def standalone_tls_stall_case(which: str) -> dict:
    """the blocking server: StandaloneTCPNetworkServer(ssl=..., ssl_handshake_timeout=0.5) with the shutdown timeout unset or
    much larger; a client that connects and never starts its handshake is dropped at the handshake timeout (real time: the verdict
    is 'still open 30 times the configured value later'), healthy TLS clients are served meanwhile"""
    import ssl as _ssl
    import threading
    import time

    from easynetwork.servers.standalone_tcp import StandaloneTCPNetworkServer

    res: dict[str, Any] = {"problems": [], "triggered": True}
    records: list = []
    kw = {"ssl_handshake_timeout": 0.5}
    if which == "both-set":
        kw["ssl_shutdown_timeout"] = 40.0
    log: list = []
    server = StandaloneTCPNetworkServer(netutil.rand_loopback(), 0, StreamProtocol(StringLineSerializer()), StreamHandler(set(), "", "", log), ssl=tlspeer.server_context("1.3"), logger=quiet_logger(records), **kw)
    up = threading.Event()
    th = threading.Thread(target=lambda: server.serve_forever(is_up_event=up), daemon=True)
    th.start()
    try:
        if not up.wait(30):
            res["problems"].append("standalone TLS server did not come up")
            return res
        a = server.get_addresses()[0]
        stalled = socket.create_connection((a.host, a.port), timeout=10)
        t0 = time.monotonic()
        # a healthy client is served while the other one stalls
        cctx = tlspeer.client_context("1.3")
        with socket.create_connection((a.host, a.port), timeout=10) as raw:
            with cctx.wrap_socket(raw, server_hostname="localhost") as tls_sock:
                tls_sock.sendall(b"hello\n")
                buf = b""
                while not buf.endswith(b"\n"):
                    d = tls_sock.recv(100)
                    if not d:
                        break
                    buf += d
                if buf != b"hello\n":
                    res["problems"].append(f"healthy client of the standalone TLS server was answered {buf!r}")
                else:
                    res["exchanges"] = 1
        stalled.settimeout(15.0 - min(14.0, time.monotonic() - t0))
        try:
            d = stalled.recv(100)
            res["stalled_closed_after"] = time.monotonic() - t0
            if d:
                res["problems"].append(f"the stalled connection received {d!r}")
        except (TimeoutError, socket.timeout):
            res["problems"].append(f"set-up fault tls-stalled (standalone server, {which}): the stalled connection is still open {time.monotonic() - t0:.1f} s after connecting although ssl_handshake_timeout=0.5 was configured: not closed at the configured timeout")
        except OSError:
            res["stalled_closed_after"] = time.monotonic() - t0
        stalled.close()
    finally:
        server.shutdown()
        server.server_close()
        th.join(20)
    res["records"] = records[-4:]
    return res


EXC_NAMES = ["ValueError", "KeyError", "Custom", "ExceptionGroup", "NestedGroupWithClientClosed", "ConnectionResetError", "BrokenPipeError", "ClientClosedError", "TimeoutError", "ReRaisedParseError", "RuntimeErrorCrashed"]
TCP_POSITIONS = ["on_connection", "on_connection_gen_before", "on_connection_gen_after", "handle_before_yield", "handle_after_1", "handle_after_2", "handle_in_parse_error", "handle_in_timeout", "on_disconnection"]
UDP_POSITIONS = ["handle_before_yield", "handle_after_1", "handle_after_2", "handle_in_parse_error", "handle_in_timeout"]
SETUP_FAULTS_TCP = ["rst-after-accept", "half-open", "rst-after-payload", "rst-after-request"]
SETUP_FAULTS_TLS = ["rst-after-accept", "half-open", "tls-garbage", "tls-stalled", "tls-eof-mid-handshake", "rst-after-payload"]


class Custom(Exception):
    pass


def make_exc(name: str, current: BaseException | None = None) -> BaseException:
    if name == "ValueError":
        return ValueError("boom")
    if name == "KeyError":
        return KeyError("boom")
    if name == "Custom":
        return Custom("boom")
    if name == "ExceptionGroup":
        return ExceptionGroup("grp", [ValueError("a"), KeyError("b")])
    if name == "NestedGroupWithClientClosed":
        return ExceptionGroup("outer", [ExceptionGroup("inner", [ClientClosedError("closed")]), ValueError("x")])
    if name == "ConnectionResetError":
        return ConnectionResetError(104, "scripted")
    if name == "BrokenPipeError":
        return BrokenPipeError(32, "scripted")
    if name == "ClientClosedError":
        return ClientClosedError("scripted")
    if name == "TimeoutError":
        return TimeoutError("scripted")
    if name == "ReRaisedParseError":
        if current is not None:
            return current
        return ValueError("no parse error at hand")
    return RuntimeError("protocol.generate_chunks() crashed")


def quiet_logger(records: list) -> logging.Logger:
    lg = logging.getLogger(f"verif.c17.{id(records)}")
    lg.propagate = False
    lg.setLevel(logging.DEBUG)

    class H(logging.Handler):
        def emit(self, record):
            records.append((record.levelname, record.getMessage()[:80]))

    lg.handlers[:] = [H()]
    return lg


class StreamHandler(AsyncStreamRequestHandler):
    def __init__(self, faulty_ports: set, exc: str, position: str, log: list) -> None:
        self.faulty, self.exc, self.pos, self.log = faulty_ports, exc, position, log

    def _port(self, client) -> int:
        from easynetwork.servers.handlers import INETClientAttribute

        # (host, port): every harness client binds its own random 127.x.y.z address, so equal port numbers do occur
        a = client.extra(INETClientAttribute.remote_address)
        return (a.host, a.port)  # type: ignore[return-value]

    def _is_faulty(self, client) -> bool:
        return self._port(client) in self.faulty

    def _raise(self, client, where: str, current: BaseException | None = None):
        self.log.append(("raise", where, self._port(client)))
        raise make_exc(self.exc, current)

    def on_connection(self, client):
        port = self._port(client)
        faulty = port in self.faulty
        self.log.append(("on_connection", port))
        if faulty and self.pos in ("on_connection_gen_before", "on_connection_gen_after"):

            async def gen():
                if self.pos == "on_connection_gen_before":
                    self._raise(client, "on_connection_gen_before")
                req = yield None
                await client.send_packet(req)
                self._raise(client, "on_connection_gen_after")
                yield None  # pragma: no cover

            return gen()

        async def coro():
            if faulty and self.pos == "on_connection":
                self._raise(client, "on_connection")
            self.log.append(("on_connection_done", port))

        return coro()

    async def handle(self, client):
        port = self._port(client)
        faulty = port in self.faulty
        if faulty and self.pos == "handle_before_yield":
            self._raise(client, "handle_before_yield")
        n = 0
        while True:
            try:
                req = yield (0.5 if (faulty and self.pos == "handle_in_timeout") else None)
            except StreamProtocolParseError as exc:
                if faulty and self.pos == "handle_in_parse_error":
                    self._raise(client, "handle_in_parse_error", exc)
                continue
            except TimeoutError:
                if faulty and self.pos == "handle_in_timeout":
                    self._raise(client, "handle_in_timeout")
                continue
            n += 1
            await client.send_packet(req)
            if faulty and self.pos == f"handle_after_{n}":
                self._raise(client, f"handle_after_{n}")

    async def on_disconnection(self, client):
        port = self._port(client)
        self.log.append(("on_disconnection", port))
        if port in self.faulty and self.pos == "on_disconnection":
            self._raise(client, "on_disconnection")


class _Up:
    def __init__(self) -> None:
        self.ev = asyncio.Event()

    def set(self) -> None:
        self.ev.set()


async def _connect(addr) -> socket.socket:
    s = socket.socket()
    s.setblocking(False)
    s.bind((netutil.rand_loopback(), 0))
    await asyncio.get_running_loop().sock_connect(s, addr)
    return s


class _SockT:
    def __init__(self, sock) -> None:
        self.sock = sock

    async def send_all(self, data) -> None:
        await asyncio.get_running_loop().sock_sendall(self.sock, data)

    async def recv_into(self, buf) -> int:
        try:
            return await asyncio.get_running_loop().sock_recv_into(self.sock, buf)
        except OSError:
            return 0


class PlainConn:
    def __init__(self, sock) -> None:
        self.sock = sock
        self.buf = b""

    async def start(self) -> None:
        pass

    async def send_line(self, line: bytes) -> None:
        await asyncio.get_running_loop().sock_sendall(self.sock, line + b"\n")

    async def send_raw(self, data: bytes) -> None:
        await asyncio.get_running_loop().sock_sendall(self.sock, data)

    async def recv_line(self) -> bytes | None:
        lp = asyncio.get_running_loop()
        while b"\n" not in self.buf:
            try:
                d = await lp.sock_recv(self.sock, 65536)
            except OSError:
                return None
            if not d:
                return None
            self.buf += d
        line, self.buf = self.buf.split(b"\n", 1)
        return line

    async def wait_closed(self) -> str:
        lp = asyncio.get_running_loop()
        try:
            while True:
                d = await lp.sock_recv(self.sock, 65536)
                if not d:
                    return "eof"
        except OSError as exc:
            return f"error:{type(exc).__name__}"

    def close(self) -> None:
        try:
            self.sock.close()
        except OSError:
            pass


class TLSConn(PlainConn):
    async def start(self) -> None:
        self.peer = tlspeer.AsyncPeer(_SockT(self.sock), tlspeer.client_context("1.3"), server_side=False)
        await self.peer.handshake()

    async def send_line(self, line: bytes) -> None:
        await self.peer.write(line + b"\n")

    async def send_raw(self, data: bytes) -> None:
        await self.peer.write(data)

    async def recv_line(self) -> bytes | None:
        while b"\n" not in self.buf:
            try:
                d = await self.peer.read_some()
            except Exception:  # noqa: BLE001
                return None
            if not d:
                return None
            self.buf += d
        line, self.buf = self.buf.split(b"\n", 1)
        return line

    async def wait_closed(self) -> str:
        r = await self.peer.read_until_end()
        return "eof" if r in ("clean", "ragged") else r


def tcp_scenario(tls: bool, exc: str | None, position: str | None, setup_fault: str | None, var: dict | None = None) -> dict:
    """var (thorough tier): {"faulty_delay": s, "n_healthy": n, "n_faulty": m, "nap_every": k}: when the failing clients join relative to
    the healthy traffic, how many of each, how the healthy clients pace themselves"""
    var = var or {"faulty_delay": 0.05, "n_healthy": 3, "n_faulty": 1, "nap_every": 5}
    res: dict[str, Any] = {"problems": [], "triggered": False, "faulty_ports": []}
    log: list = []
    records: list = []

    async def main(loop):
        backend = AsyncIOBackend()
        faulty_ports: set = set()
        handler = StreamHandler(faulty_ports, exc or "", position or "", log)
        server = AsyncTCPNetworkServer(
            netutil.rand_loopback(), 0, StreamProtocol(StringLineSerializer()), handler, backend,
            ssl=tlspeer.server_context("1.3") if tls else None,
            ssl_handshake_timeout=HS_TIMEOUT if tls else None, ssl_shutdown_timeout=7.0 if tls else None,  # distinct values: each must reach its own place
            logger=quiet_logger(records),
        )
        up = _Up()
        st = asyncio.ensure_future(server.serve_forever(is_up_event=up))
        await asyncio.wait_for(up.ev.wait(), 30)
        a = server.get_addresses()[0]
        addr = (a.host, a.port)
        Conn = TLSConn if tls else PlainConn
        exchanges = {"n": 0}

        async def healthy(i: int):
            c = Conn(await _connect(addr))
            try:
                await c.start()
                for n in range(20):
                    msg = f"c{i}:{n}".encode()
                    await c.send_line(msg)
                    r = await c.recv_line()
                    if r != msg:
                        res["problems"].append(f"healthy client {i}: exchange {n} answered {r!r}")
                        return
                    exchanges["n"] += 1
                    if n % var["nap_every"] == 0:
                        await asyncio.sleep(0.1)
            finally:
                c.close()

        async def faulty():
            s = socket.socket()
            s.setblocking(False)
            s.bind((netutil.rand_loopback(), 0))
            port = s.getsockname()[:2]
            faulty_ports.add(port)
            res["faulty_port"] = port
            res["faulty_ports"].append(port)
            await asyncio.sleep(var["faulty_delay"])
            lp = asyncio.get_running_loop()
            await lp.sock_connect(s, addr)
            t_conn = loop.time()
            if setup_fault is not None:
                res["triggered"] = True
                if setup_fault == "rst-after-accept":
                    s.setsockopt(socket.SOL_SOCKET, socket.SO_LINGER, struct.pack("ii", 1, 0))
                    s.close()
                    return
                if setup_fault in ("rst-after-payload", "rst-after-request"):
                    # the kernel knows the connection is reset before the event loop has noticed: whatever the server does
                    # with this connection next (read, write_eof, close) fails with a non-ConnectionError OSError such as ENOTCONN
                    await lp.sock_sendall(s, b"par" if setup_fault == "rst-after-payload" else b"f:1\n")
                    s.setsockopt(socket.SOL_SOCKET, socket.SO_LINGER, struct.pack("ii", 1, 0))
                    s.close()
                    return
                if setup_fault == "half-open":
                    s.shutdown(socket.SHUT_WR)
                    c0 = PlainConn(s)
                    res["faulty_end"] = await asyncio.wait_for(c0.wait_closed(), 20)
                    s.close()
                    return
                if setup_fault == "tls-garbage":
                    await lp.sock_sendall(s, b"GET / HTTP/1.0\r\n\r\n" * 4)
                elif setup_fault == "tls-eof-mid-handshake":
                    await lp.sock_sendall(s, b"\x16\x03\x01\x02\x00\x01\x00\x01")
                    s.shutdown(socket.SHUT_WR)
                # tls-stalled: send nothing; the server's handshake timeout (0.3 virtual s) must get rid of us
                c0 = PlainConn(s)
                try:
                    res["faulty_end"] = await asyncio.wait_for(c0.wait_closed(), 20)
                    if setup_fault == "tls-stalled":
                        res["stalled_closed_after"] = loop.time() - t_conn
                        if loop.time() - t_conn > HS_TIMEOUT + 0.25:
                            res["problems"].append(f"set-up fault tls-stalled: the stalled connection was not closed at the configured ssl_handshake_timeout={HS_TIMEOUT} but {loop.time() - t_conn:.2f} virtual seconds after connecting")
                except asyncio.TimeoutError:
                    res["problems"].append(f"set-up fault {setup_fault}: the server never closed the connection")
                s.close()
                return
            c = Conn(s)
            try:
                await c.start()
                if position in ("on_connection", "on_connection_gen_before", "handle_before_yield"):
                    pass
                elif position == "on_connection_gen_after":
                    await c.send_line(b"f:1")
                elif position == "handle_after_1":
                    await c.send_line(b"f:1")
                elif position == "handle_after_2":
                    await c.send_line(b"f:1")
                    await c.send_line(b"f:2")
                elif position == "handle_in_parse_error":
                    await c.send_line(b"f:1")
                    await c.send_raw(b"bad\xff\xfe\n")
                elif position == "handle_in_timeout":
                    await c.send_line(b"f:1")
                elif position == "on_disconnection":
                    await c.send_line(b"f:1")
                    await c.recv_line()
                    c.close()
                    return
                try:
                    res["faulty_end"] = await asyncio.wait_for(c.wait_closed(), 20)
                except asyncio.TimeoutError:
                    res["problems"].append(f"the failing client's connection was not closed by the server ({exc} at {position})")
            except Exception as e:  # noqa: BLE001
                res["faulty_exc"] = f"{type(e).__name__}: {e}"
            finally:
                c.close()

        tasks = [asyncio.ensure_future(healthy(i)) for i in range(var["n_healthy"])] + [asyncio.ensure_future(faulty()) for _ in range(var["n_faulty"])]
        done, pending = await asyncio.wait(tasks, timeout=120)
        if pending:
            res["problems"].append(f"{len(pending)} client tasks still pending after 120 virtual seconds")
            for t in pending:
                t.cancel()
        for t in done:
            if t.exception() is not None:
                res["problems"].append(f"client task failed: {type(t.exception()).__name__}: {t.exception()}")
        res["exchanges"] = exchanges["n"]
        if st.done():
            res["problems"].append(f"serve_forever ended: {st.exception()!r}" if not st.cancelled() else "serve_forever was cancelled")
        else:
            # late client
            try:
                c = Conn(await _connect(addr))
                await c.start()
                await c.send_line(b"late")
                r = await asyncio.wait_for(c.recv_line(), 20)
                if r != b"late":
                    res["problems"].append(f"a client connecting after the fault was answered {r!r}")
                else:
                    res["late_ok"] = True
                c.close()
            except Exception as e:  # noqa: BLE001
                res["problems"].append(f"a client connecting after the fault failed: {type(e).__name__}: {e}")
        for _ in range(5):
            await asyncio.sleep(0.1)
        await server.shutdown()
        await server.server_close()
        await asyncio.gather(st, return_exceptions=True)

    try:
        vloop.run(main)
    except vloop.Quiescent as exc:
        res["problems"].append(f"deadlock / starvation: {exc}")
    res["log"] = log
    res["records"] = records[-6:]
    if any(e[0] == "raise" for e in log):
        res["triggered"] = True
    # on_disconnection ran iff on_connection completed
    for port in res["faulty_ports"]:
        if setup_fault is not None:
            break
        done = any(e == ("on_connection_done", port) for e in log)
        nd = sum(1 for e in log if e == ("on_disconnection", port))
        res["ondisc_rule"] = (done, nd)
        if nd != (1 if done else 0):
            res["problems"].append(f"on_connection completed={done} but on_disconnection ran {nd}x for the failing client")
    # healthy ports: exactly one on_connection and one on_disconnection each
    return res


class DgramHandler(AsyncDatagramRequestHandler):
    def __init__(self, faulty_ports: set, exc: str, position: str, log: list) -> None:
        self.faulty, self.exc, self.pos, self.log = faulty_ports, exc, position, log
        self.gens: dict[int, int] = {}
        self.raised: set = set()
        self.linger = 0

    async def handle(self, client):
        from easynetwork.servers.handlers import INETClientAttribute

        _a = client.extra(INETClientAttribute.remote_address)
        port = (_a.host, _a.port)  # every harness client has its own 127.x.y.z address: port numbers alone collide
        self.gens[port] = self.gens.get(port, 0) + 1
        gid = self.gens[port]
        faulty = port in self.faulty and port not in self.raised
        self.log.append(("gen-start", port, gid))

        def boom(where, current=None):
            self.raised.add(port)
            self.log.append(("raise", where, port))
            raise make_exc(self.exc, current)

        async def linger():
            # burst mode: the failing handler is suspended on bare yields (neither a datagram nor a timer) for a few loop
            # iterations while more datagrams of its client are read, one per iteration, and queued behind it
            for _ in range(self.linger):
                await asyncio.sleep(0)

        if faulty and self.pos == "handle_before_yield":
            await linger()
            boom("handle_before_yield")
        n = 0
        while True:
            try:
                req = yield (0.5 if (faulty and self.pos == "handle_in_timeout") else None)
            except DatagramProtocolParseError as exc:
                if faulty and self.pos == "handle_in_parse_error":
                    await linger()
                    boom("handle_in_parse_error", exc)
                continue
            except TimeoutError:
                if faulty and self.pos == "handle_in_timeout":
                    await linger()
                    boom("handle_in_timeout")
                continue
            n += 1
            await client.send_packet(f"{req}|g{gid}")
            if faulty and self.pos == f"handle_after_{n}":
                await linger()
                boom(f"handle_after_{n}")


def udp_scenario(exc: str, position: str, burst: int = 0) -> dict:
    """burst: number of extra datagrams the failing client sends back-to-back right behind the one that triggers the failure"""
    res: dict[str, Any] = {"problems": [], "triggered": False}
    log: list = []
    records: list = []

    async def main(loop):
        backend = AsyncIOBackend()
        faulty_ports: set = set()
        handler = DgramHandler(faulty_ports, exc, position, log)
        handler.linger = 3 if burst else 0
        server = AsyncUDPNetworkServer(netutil.rand_loopback(), 0, DatagramProtocol(StringLineSerializer()), handler, backend, logger=quiet_logger(records))
        up = _Up()
        st = asyncio.ensure_future(server.serve_forever(is_up_event=up))
        await asyncio.wait_for(up.ev.wait(), 30)
        a = server.get_addresses()[0]
        addr = (a.host, a.port)
        lp = asyncio.get_running_loop()
        exchanges = {"n": 0}

        def usock():
            s = socket.socket(socket.AF_INET, socket.SOCK_DGRAM)
            s.bind((netutil.rand_loopback(), 0))
            s.connect(addr)
            s.setblocking(False)
            return s

        async def healthy(i: int):
            s = usock()
            try:
                for n in range(20):
                    msg = f"c{i}:{n}".encode()
                    await lp.sock_sendall(s, msg)
                    r = await asyncio.wait_for(lp.sock_recv(s, 65536), 30)
                    if not r.startswith(msg + b"|g"):
                        res["problems"].append(f"healthy UDP client {i}: exchange {n} answered {r!r}")
                        return
                    exchanges["n"] += 1
                    if n % 5 == 0:
                        await asyncio.sleep(0.1)
            finally:
                s.close()

        async def faulty():
            s = usock()
            port = s.getsockname()[:2]
            faulty_ports.add(port)
            res["faulty_port"] = port
            try:
                await asyncio.sleep(0.05)
                if position == "handle_before_yield":
                    await lp.sock_sendall(s, b"f:1")
                elif position == "handle_after_1":
                    await lp.sock_sendall(s, b"f:1")
                elif position == "handle_after_2":
                    await lp.sock_sendall(s, b"f:1")
                    await lp.sock_sendall(s, b"f:2")
                elif position == "handle_in_parse_error":
                    await lp.sock_sendall(s, b"f:1")
                    await lp.sock_sendall(s, b"\xff\xfe bad")
                elif position == "handle_in_timeout":
                    await lp.sock_sendall(s, b"f:1")
                    if burst:
                        await asyncio.sleep(0.5)  # the burst arrives while the handler deals with its TimeoutError
                for j in range(burst):
                    await lp.sock_sendall(s, b"x:%d" % j)
                await asyncio.sleep(2.0)
                # drain whatever was answered before the failure
                try:
                    while True:
                        s.recv(65536)
                except BlockingIOError:
                    pass
                # a later datagram from the same address must reach a fresh generator
                await lp.sock_sendall(s, b"again")
                try:
                    r = await asyncio.wait_for(lp.sock_recv(s, 65536), 30)
                    res["again"] = r
                except asyncio.TimeoutError:
                    res["problems"].append("a later datagram from the failing address was never answered")
            finally:
                s.close()

        tasks = [asyncio.ensure_future(healthy(i)) for i in range(3)] + [asyncio.ensure_future(faulty())]
        done, pending = await asyncio.wait(tasks, timeout=200)
        if pending:
            res["problems"].append(f"{len(pending)} UDP client tasks still pending")
            for t in pending:
                t.cancel()
        for t in done:
            if t.exception() is not None:
                res["problems"].append(f"UDP client task failed: {type(t.exception()).__name__}: {t.exception()}")
        res["exchanges"] = exchanges["n"]
        if st.done():
            res["problems"].append(f"serve_forever ended: {st.exception()!r}" if not st.cancelled() else "serve_forever cancelled")
        else:
            res["late_ok"] = True
        await server.shutdown()
        await server.server_close()
        await asyncio.gather(st, return_exceptions=True)

    try:
        vloop.run(main)
    except vloop.Quiescent as exc:
        res["problems"].append(f"deadlock / starvation: {exc}")
    res["log"] = log
    if any(e[0] == "raise" for e in log):
        res["triggered"] = True
    port = res.get("faulty_port")
    if res["triggered"] and "again" in res:
        gens = [e[2] for e in log if e[0] == "gen-start" and e[1] == port]
        ans = res["again"]
        if not ans.startswith(b"again|g"):
            res["problems"].append(f"later datagram answered {ans!r}")
        else:
            g = int(ans.split(b"|g")[1])
            raised_in = [e for e in log if e[0] == "raise" and e[2] == port]
            if len(gens) < 2 or g < 2:
                res["problems"].append(f"the later datagram was handled by generator #{g}; generators started for that address: {gens}")
            res["fresh"] = True
    return res


def plan(tier: str, seed: int) -> list[dict]:
    items = []
    for kind in ("tcp", "tls"):
        for e in EXC_NAMES:
            for p in TCP_POSITIONS:
                items.append({"kind": kind, "exc": e, "pos": p})
        for f in (SETUP_FAULTS_TCP if kind == "tcp" else SETUP_FAULTS_TLS):
            items.append({"kind": kind, "fault": f})
    items.append({"kind": "standalone-tls", "fault": "tls-stalled:only-handshake-timeout-set"})
    items.append({"kind": "standalone-tls", "fault": "tls-stalled:both-set"})
    for e in EXC_NAMES:
        for p in UDP_POSITIONS:
            items.append({"kind": "udp", "exc": e, "pos": p})
            items.append({"kind": "udp", "exc": e, "pos": p, "burst": 6})
    rng = random.Random(seed)
    if tier == "thorough":
        # the same matrix under seeded variations of who joins when and how many clients of each kind there are
        base = list(items)
        for rep in range(20):
            for it in base:
                if it["kind"] in ("udp", "standalone-tls"):
                    continue
                items.append({**it, "var": {"faulty_delay": rng.choice([0, 0.05, 0.1, 0.3, 0.7, 1.2]), "n_healthy": rng.choice([1, 3, 5]), "n_faulty": rng.choice([1, 1, 2, 3]), "nap_every": rng.choice([1, 3, 5, 50])}})
    rng.shuffle(items)
    n = 32
    return [{"seed": seed, "items": items[i::n]} for i in range(n)]


def run_shard(params: dict, ctx) -> None:
    for it in params["items"]:
        if ctx.should_stop(60):
            return
        kind = it["kind"]
        ctx.count(f"kind:{kind}")
        if kind == "udp":
            res = udp_scenario(it["exc"], it["pos"], it.get("burst", 0))
            if it.get("burst"):
                ctx.count("udp_burst_behind_failing_datagram")
        elif kind == "standalone-tls":
            res = standalone_tls_stall_case(it["fault"].split(":")[1].replace("only-handshake-timeout-set", "only"))
            if "stalled_closed_after" in res:
                ctx.count("standalone_stalled_handshake_dropped")
        else:
            res = tcp_scenario(kind == "tls", it.get("exc"), it.get("pos"), it.get("fault"), it.get("var"))
            if "stalled_closed_after" in res:
                ctx.count("stalled_handshake_dropped_at_its_timeout")
        ctx.case(res["triggered"], repr(it))
        if res["triggered"]:
            ctx.count("setup_faults" if "fault" in it else "faults_triggered")
        ctx.count("healthy_exchanges_checked", res.get("exchanges", 0))
        if res.get("late_ok"):
            ctx.count("late_client_served")
        if "ondisc_rule" in res:
            ctx.count("on_disconnection_rule_checked")
        if res.get("fresh"):
            ctx.count("udp_fresh_generator_checked")
        if not res["triggered"] and "fault" not in it:
            res["problems"].append("the scripted fault was never triggered (harness could not reach the hook)")
        for p in res["problems"]:
            cat = "others-affected" if ("healthy" in p or "deadlock" in p or "pending" in p) else "server-died" if "serve_forever" in p else "late-client" if "after the fault" in p else "not-closed" if "not closed" in p or "never closed" in p else "hook-rule" if "on_disconnection" in p else "udp-stale-generator" if "generator" in p or "later datagram" in p else "other"
            ctx.violation(f"{cat}:{kind}:{it.get('pos') or it.get('fault')}", f"[{kind}] {it}: {p}", {"item": it, "log_tail": [list(map(str, e)) for e in res.get("log", [])[-8:]], "records": res.get("records")})
    ctx.sample({"matrix": "11 exception classes x 9 TCP / 5 UDP hook positions + set-up faults, x {tcp, tls, udp}", "healthy": "3 clients x 20 echo exchanges concurrently, 1 late client"})


def replay(witness: dict, ctx) -> None:
    run_shard({"seed": 0, "items": [witness["item"]]}, ctx)
