"""C16 — datagram server: per-client FIFO, one active handler, nothing dropped.

Monitor: AsyncDatagramServer.serve over a scripted in-memory datagram listener (which, like the real one, starts one handler
task per datagram in arrival order) on the virtual-time loop. Datagrams carry (address, seq). Handler shapes: generator ending
after k requests, work of d virtual seconds per request, yielded timeouts, malformed datagrams. Arrivals are placed exactly
at, just before and just after the instant a handler finishes. Oracle: per address the handler sees every datagram once in
arrival order; at most one live generator per address; each datagram is handled at the time predicted by a per-client FIFO
model (so one client's slow handler never delays another); the server never reports an inconsistent state.
Back-pressure scenario: replies through the real asyncio listener adapter (write flow control shared by all clients) with scripted
pause/resume notifications and per-client reply timeouts; one client's abandoned reply never fails or strands another client's handler.
"""

from __future__ import annotations

import asyncio
import random
from typing import Any

from easynetwork.exceptions import DatagramProtocolParseError
from easynetwork.lowlevel.api_async.backend._asyncio.backend import AsyncIOBackend
from easynetwork.lowlevel.api_async.servers.datagram import AsyncDatagramServer
from easynetwork.protocol import DatagramProtocol
from easynetwork.serializers import StringLineSerializer

from vlib import memtransport, vloop

PROPERTY = "C16"
LEVEL = "exploration"
RULE = (
    "case = (1..4 client addresses, <= 14 datagrams with scripted virtual arrival times incl. ties with handler completion instants, "
    "per-request work in {0, 0.5, 1, 1.5} s, generator length k in {1,2,3,inf}, wait bounded by a yielded timeout / a timeout() scope / a move_on_after() scope "
    "around the yield with T in {None, 0 (polling handler), 0.5, 2}, malformed datagrams, "
    "listener kind in {scripted in-memory listener, real asyncio DatagramListenerProtocol fed by datagram_received}). non-trivial = "
    ">= 2 clients with overlapping handlers or a datagram arriving while its client's handler runs; distinct = distinct scripts"
)
ASSUMPTIONS = [
    "per-client reference model: single FIFO server, start_j = max(arrival_j, finish_{j-1}), finish_j = start_j + work_j; generator restarts and TimeoutError handling take no virtual time",
    "virtual time, 0.05 s tolerance",
    "handlers never raise here (failure isolation is C17's subject)",
]
REQUIRED = [
    "arrival_same_instant_as_completion",
    "fresh_generator_with_nonempty_queue",
    "two_clients_overlapping",
    "malformed_datagrams",
    "timeouts_thrown",
    "expired_deadline_with_queued_datagram",
    "handler_wait:timeout-scope",
    "handler_wait:move-on-scope",
    "datagrams_checked",
    "serve_restarted_on_same_listener",
    "datagrams_before_serve",
    "level:high",
    "handler_let_timeout_escape",
    "listener:scripted",
    "listener:real-protocol",
    "backpressure_cases",
    "backpressure_other_client_resumed_after_an_abandoned_reply",
]
WATCHDOG = {"quick": 900, "thorough": 7200}
EPS = 0.05
POLL = 0.25


def gen_script(rng: random.Random) -> dict:
    A = rng.randint(1, 4)
    n = rng.randint(1, 14)
    t = 0.0
    arrivals = []
    seqs = [0] * A
    for _ in range(n):
        t += rng.choice([0, 0, 0.5, 0.5, 1.0, 2.0])
        a = rng.randrange(A)
        bad = rng.random() < 0.12
        arrivals.append({"t": t, "addr": a, "seq": seqs[a], "bad": bad, "work": rng.choice([0, 0, 0.5, 1.0, 1.5])})
        seqs[a] += 1
    # datagrams that reach the socket before serve() is awaited, and a stop + restart of serve() on the same (open) listener at a
    # quiet moment (everything received so far has been handled): nothing may be handled twice or lost across the restart
    early = rng.choice([0, 0, 1, 2, 3])
    for x in arrivals[:early]:
        x["t"] = 0.0
        x["early"] = True
    restart_at = None
    lo = max(1, early)
    if lo <= n - 1 and rng.random() < 0.3:
        split = rng.randint(lo, n - 1)
        fin: dict = {}
        for x in arrivals[:split]:
            st = max(x["t"], fin.get(x["addr"], 0.0))
            fin[x["addr"]] = st + (0 if x["bad"] else x["work"])
        restart_at = (int(max(fin.values()) * 2) + 1) / 2 + 1.5
        delta = max(0.0, restart_at + 0.5 - arrivals[split]["t"])
        for x in arrivals[split:]:
            x["t"] += delta
    return {
        "restart_at": restart_at,
        "arrivals": arrivals,
        "k": [rng.choice([1, 2, 3, None]) for _ in range(A)],
        "timeout": [rng.choice([None, None, 0.5, 2.0, 0, 0]) for _ in range(A)],
        "tmode": [rng.choice(["yield", "yield", "timeout-scope", "move-on-scope"]) for _ in range(A)],
        "on_timeout": rng.choice(["continue", "stop"]),
        # high: the handler is an AsyncDatagramRequestHandler run through servers.misc.build_lowlevel_datagram_server_handler, as the
        # high-level UDP server does; only there may a handler let its TimeoutError escape (the wrapper contains and logs it)
        "level": rng.choice(["low", "low", "high"]),
        "escape_timeout": rng.random() < 0.5,
        "reply": rng.random() < 0.5,
        "listener": rng.choice(["scripted", "scripted", "real-protocol"]),
    }


def run_script(sc: dict) -> dict:
    log: list = []
    res: dict[str, Any] = {"log": log}

    async def main(loop):
        backend = AsyncIOBackend()
        proto = DatagramProtocol(StringLineSerializer())
        if sc["listener"] == "scripted":
            listener: Any = memtransport.MemDatagramListener(backend)

            def deliver(d, addr):
                listener.deliver(d, addr)

        else:
            from easynetwork.lowlevel.api_async.backend._asyncio.datagram.listener import DatagramListenerProtocol, DatagramListenerSocketAdapter

            class FakeTransport(asyncio.DatagramTransport):
                def __init__(self):
                    super().__init__()
                    self.sent = []
                    self._closing = False

                def sendto(self, data, addr=None):
                    self.sent.append((bytes(data), addr))

                def get_extra_info(self, name, default=None):
                    import socket as _s

                    if name == "socket":
                        if not hasattr(self, "_sock"):
                            self._sock = _s.socket(_s.AF_INET, _s.SOCK_DGRAM)
                            self._sock.bind(("127.0.0.1", 0))
                        return self._sock
                    return default

                def is_closing(self):
                    return self._closing

                def close(self):
                    self._closing = True
                    if hasattr(self, "_sock"):
                        self._sock.close()
                    loop.call_soon(dproto.connection_lost, None)

                def abort(self):
                    self.close()

                def get_write_buffer_size(self):
                    return 0

                def get_write_buffer_limits(self):
                    return (0, 0)

                def set_write_buffer_limits(self, high=None, low=None):
                    pass

            dproto = DatagramListenerProtocol(loop=loop)
            ft = FakeTransport()
            dproto.connection_made(ft)
            listener = DatagramListenerSocketAdapter(backend, ft, dproto)
            res["fake_transport"] = ft

            def deliver(d, addr):
                dproto.datagram_received(d, addr)

        server = AsyncDatagramServer(listener, proto)
        live: dict[Any, int] = {}
        gen_count: dict[Any, int] = {}

        def now():
            return round(loop.time(), 4)

        work = {(a["addr"], a["seq"]): a["work"] for a in sc["arrivals"]}

        async def handler(ctx):
            addr = ctx.address
            a = addr[1] if isinstance(addr, tuple) else addr
            live[a] = live.get(a, 0) + 1
            gen_count[a] = gen_count.get(a, 0) + 1
            gid = gen_count[a]
            log.append(("gen-start", a, gid, now(), live[a]))
            got = 0
            k = sc["k"][a]
            try:
                T = sc["timeout"][a]
                tmode = sc.get("tmode", ["yield"] * (a + 1))[a] if T is not None else "yield"
                while k is None or got < k:
                    try:
                        if tmode == "yield":
                            req = yield T
                        elif tmode == "timeout-scope":
                            with backend.timeout(T):
                                req = yield None
                        else:
                            with backend.move_on_after(T) as ms:
                                req = yield None
                            if ms.cancelled_caught():
                                raise TimeoutError
                    except TimeoutError:
                        log.append(("timeout", a, now()))
                        if sc["on_timeout"] == "stop":
                            if sc.get("level") == "high" and sc.get("escape_timeout"):
                                res["escaped_timeouts"] = res.get("escaped_timeouts", 0) + 1
                                raise  # the generator dies with the TimeoutError: same as stopping, a later datagram gets a fresh one
                            return
                        if not T:
                            await asyncio.sleep(POLL)  # a polling handler: drain what is queued, then do something else for a while
                        continue
                    except DatagramProtocolParseError:
                        log.append(("bad", a, now()))
                        got += 1
                        continue
                    got += 1
                    seq = int(req.split(":")[1])
                    log.append(("req", a, seq, now(), live[a]))
                    w = work.get((a, seq), 0)
                    if w:
                        await asyncio.sleep(w)
                    if sc["reply"]:
                        await ctx.server.send_packet_to(req, addr)
            finally:
                live[a] -= 1
                log.append(("gen-finally", a, gid, now()))

        low_handler = handler
        if sc.get("level") == "high":
            import contextlib

            from easynetwork.servers.handlers import AsyncDatagramRequestHandler
            from easynetwork.servers.misc import build_lowlevel_datagram_server_handler

            class H(AsyncDatagramRequestHandler):
                def handle(self_inner, client):
                    return low_handler(client)

            @contextlib.asynccontextmanager
            async def initializer(lowlevel_client):
                try:
                    yield lowlevel_client  # the handler body only uses .address and .server of the context
                except Exception as exc:  # noqa: BLE001  (the high-level server logs and contains handler failures here)
                    log.append(("contained", type(exc).__name__, now()))

            handler = build_lowlevel_datagram_server_handler(initializer, H())  # type: ignore[assignment]

        def send_in(arr):
            payload = b"\xff\xfe bad" if arr["bad"] else f"a{arr['addr']}:{arr['seq']}".encode()
            log.append(("arrive", arr["addr"], arr["seq"], now(), arr["bad"]))
            deliver(payload, ("127.0.0.1", arr["addr"]) if sc["listener"] != "scripted" else ("mem", arr["addr"]))

        async def stop_serve(serve):
            serve.cancel()
            # harness tear-down. A polling handler (timeout(0) scope around its yield) that polls in the very iteration of this cancel
            # swallows it (the known C13 I5 mechanism: external cancel coincident with a scope's own cancel) and then polls for ever;
            # that is not C16's subject: cancel again until every task is gone, and record that it was needed.
            for attempt in range(50):
                done, _pending = await asyncio.wait([serve], timeout=1.0)
                if done:
                    break
                res["teardown_recancelled"] = attempt + 1
                for t in asyncio.all_tasks():
                    if t is not asyncio.current_task() and not t.done():
                        t.cancel()
            await asyncio.gather(serve, return_exceptions=True)

        t0 = loop.time()
        res["t0"] = t0
        for arr in sc["arrivals"]:
            if arr.get("early"):
                send_in(arr)  # reaches the listener before serve() is awaited
                res["early"] = res.get("early", 0) + 1
        serve = asyncio.ensure_future(server.serve(handler))
        await asyncio.sleep(0)
        restarted = False
        for arr in sc["arrivals"]:
            if arr.get("early"):
                continue
            if sc.get("restart_at") is not None and not restarted and arr["t"] > sc["restart_at"]:
                delay = t0 + sc["restart_at"] - loop.time()
                if delay > 0:
                    await asyncio.sleep(delay)
                if serve.done():
                    break
                await stop_serve(serve)
                log.append(("restart", now()))
                serve = asyncio.ensure_future(server.serve(handler))
                await asyncio.sleep(0)
                restarted = True
                res["restarted"] = True
            delay = t0 + arr["t"] - loop.time()
            if delay > 0:
                await asyncio.sleep(delay)
            send_in(arr)
        # let everything drain: total work + timeouts
        await asyncio.sleep(sum(a["work"] for a in sc["arrivals"]) + 10)
        res["serve_done"] = serve.done()
        if serve.done():
            res["serve_exc"] = repr(serve.exception()) if not serve.cancelled() else "cancelled"
        await stop_serve(serve)
        res["live"] = dict(live)
        await server.aclose()
        if sc["listener"] == "scripted":
            res["sent"] = list(listener.sent)
        else:
            res["sent"] = list(res["fake_transport"].sent)
            res.pop("fake_transport")

    try:
        vloop.run(main)
    except vloop.Quiescent as exc:
        res["deadlock"] = str(exc)
    return res


def backpressure_case(rng: random.Random) -> tuple[dict, str | None, dict]:
    """replies under back-pressure: the real asyncio listener adapter (all clients of a UDP server share its write flow control) over a
    transport whose pause_writing()/resume_writing() notifications are scripted. Some clients bound their reply with
    move_on_after(); that one client's reply is abandoned must not disturb the others: after the congestion ends every handler
    parked in its reply goes on, and every datagram of every client is handled exactly once, in order"""
    from easynetwork.lowlevel.api_async.backend._asyncio.datagram.listener import DatagramListenerProtocol, DatagramListenerSocketAdapter

    A = rng.randint(2, 4)
    sc = {
        "A": A,
        "n": [rng.randint(1, 3) for _ in range(A)],
        "reply_timeout": [rng.choice([None, None, 0.5, 1.0]) for _ in range(A)],
        "stagger": [rng.choice([0, 0, 0.1, 0.2]) for _ in range(A)],
        "pause_at": rng.choice([0.0, 0.05, 0.15]),
        "resume_at": rng.choice([0.3, 0.75, 1.5, 3.0]),
        "second_pause": rng.random() < 0.3,
        "self_pause": rng.random() < 0.5,
    }
    if all(t is None for t in sc["reply_timeout"]):
        sc["reply_timeout"][rng.randrange(A)] = rng.choice([0.5, 1.0])
    if all(t is not None for t in sc["reply_timeout"]):
        sc["reply_timeout"][rng.randrange(A)] = None
    log: list = []
    res: dict[str, Any] = {"log": log}

    async def main(loop):
        import socket as _s

        backend = AsyncIOBackend()
        sock = _s.socket(_s.AF_INET, _s.SOCK_DGRAM)
        sock.bind(("127.0.0.1", 0))
        state = {"paused": False, "want_pause": False}

        class FakeTransport(asyncio.DatagramTransport):
            def __init__(self):
                super().__init__()
                self.sent = []
                self._closing = False

            def sendto(self, data, addr=None):
                self.sent.append((bytes(data), addr))
                if state["want_pause"] and not state["paused"]:
                    # this very datagram crosses the high-water mark: asyncio queues it and pauses the protocol from inside sendto()
                    state["paused"] = True
                    dproto.pause_writing()

            def get_extra_info(self, name, default=None):
                return sock if name == "socket" else default

            def is_closing(self):
                return self._closing

            def close(self):
                self._closing = True
                loop.call_soon(dproto.connection_lost, None)

            def abort(self):
                self.close()

            def get_write_buffer_size(self):
                return 0

            def get_write_buffer_limits(self):
                return (0, 0)

            def set_write_buffer_limits(self, high=None, low=None):
                pass

        dproto = DatagramListenerProtocol(loop=loop)
        ft = FakeTransport()
        dproto.connection_made(ft)
        listener = DatagramListenerSocketAdapter(backend, ft, dproto)
        server = AsyncDatagramServer(listener, DatagramProtocol(StringLineSerializer()))
        t0 = loop.time()

        def now():
            return round(loop.time() - t0, 4)

        async def handler(ctx):
            a = ctx.address[1]
            while True:
                req = yield
                seq = int(req.split(":")[1])
                log.append(("req", a, seq, now()))
                rt = sc["reply_timeout"][a]
                try:
                    if rt is None:
                        await ctx.server.send_packet_to(req, ctx.address)
                        log.append(("replied", a, seq, now()))
                    else:
                        with backend.move_on_after(rt) as scope:
                            await ctx.server.send_packet_to(req, ctx.address)
                        log.append(("reply-abandoned" if scope.cancelled_caught() else "replied", a, seq, now()))
                except BaseException as exc:  # noqa: BLE001
                    log.append(("reply-failed", a, seq, now(), type(exc).__name__, bool(res.get("stopping"))))
                    raise

        def pause():
            if sc["self_pause"]:
                state["want_pause"] = True
            elif not state["paused"]:
                state["paused"] = True
                dproto.pause_writing()

        def resume():
            state["want_pause"] = False
            if state["paused"]:
                state["paused"] = False
                dproto.resume_writing()

        serve = asyncio.ensure_future(server.serve(handler))
        await asyncio.sleep(0)
        loop.call_at(t0 + sc["pause_at"], pause)
        loop.call_at(t0 + sc["resume_at"], resume)
        if sc["second_pause"]:
            loop.call_at(t0 + sc["resume_at"] + 0.5, pause)
            loop.call_at(t0 + sc["resume_at"] + 2.5, resume)
        for a in range(A):
            for j in range(sc["n"][a]):
                loop.call_at(t0 + sc["stagger"][a] + 0.1 * j, dproto.datagram_received, f"a{a}:{j}".encode(), ("127.0.0.1", a))
        await asyncio.sleep(sc["resume_at"] + 12)
        res["serve_done"] = serve.done()
        res["stopping"] = True
        serve.cancel()
        await asyncio.gather(serve, return_exceptions=True)
        await server.aclose()
        sock.close()
        res["sent"] = len(ft.sent)

    try:
        vloop.run(main)
    except vloop.Quiescent as exc:
        return sc, f"deadlock: {exc}", res
    if res.get("serve_done"):
        return sc, "serve() ended by itself", res
    for a in range(sc["A"]):
        seen = [e[2] for e in log if e[0] == "req" and e[1] == a]
        if seen != list(range(sc["n"][a])):
            stuck = [e for e in log if e[0] == "req" and e[1] == a and not any(f[0] in ("replied", "reply-abandoned", "reply-failed") and f[1] == a and f[2] == e[2] and not (f[0] == "reply-failed" and f[5]) for f in log)]
            extra = f"; its handler never came back from the reply to datagram #{stuck[0][2]} although the transport resumed writing at t={sc['resume_at']}" if stuck else ""
            return sc, f"client {a} sent datagrams {list(range(sc['n'][a]))}, its handler saw {seen}{extra} (reply timeouts per client: {sc['reply_timeout']})", res
        for e in log:
            if e[0] == "reply-failed" and e[1] == a and not e[5]:
                return sc, f"client {a}: the reply to datagram #{e[2]} failed with {e[4]} at t={e[3]} although nobody cancelled this client's handler (reply timeouts per client: {sc['reply_timeout']}): another client's abandoned reply broke it", res
        if sc["reply_timeout"][a] is None:
            done = [e[2] for e in log if e[0] == "replied" and e[1] == a]
            if done != list(range(sc["n"][a])):
                return sc, f"client {a} (no reply timeout): replies completed for {done} of {sc['n'][a]} datagrams", res
    return sc, None, res


def decide(sc: dict, res: dict, ctx=None) -> str | None:
    if res.get("deadlock"):
        return f"deadlock: {res['deadlock']}"
    if res.get("serve_done"):
        return f"serve() ended by itself: {res.get('serve_exc')}"
    log = res["log"]
    t0 = res["t0"]
    A = len(sc["k"])
    for a in range(A):
        # arrival instants as logged by the harness (a restart of serve() may hold a delivery back a little)
        actual = {(e[1], e[2]): e[3] - t0 for e in log if e[0] == "arrive"}
        arrs = [dict(x, t=actual.get((x["addr"], x["seq"]), x["t"])) for x in sc["arrivals"] if x["addr"] == a]
        seen = [e for e in log if e[0] in ("req", "bad") and e[1] == a]
        # exactly once, in order
        if len(seen) != len(arrs):
            return f"client {a}: {len(arrs)} datagrams arrived, {len(seen)} were handled"
        fin_prev = 0.0
        for j, (x, e) in enumerate(zip(arrs, seen)):
            if x["bad"] != (e[0] == "bad"):
                return f"client {a}: datagram #{j} (bad={x['bad']}) was handled as {e[0]}"
            if e[0] == "req" and e[2] != x["seq"]:
                return f"client {a}: datagram #{j} has seq {e[2]}, expected {x['seq']} (order / duplication)"
            t_seen = (e[3] if e[0] == "req" else e[2]) - t0
            start = max(x["t"], fin_prev)
            if sc["timeout"][a] == 0 and sc["on_timeout"] == "continue":
                # polling handler (yield 0 / sleep POLL): the datagram is seen at the next poll; nothing may be seen early or skipped
                if not (start - EPS <= t_seen <= start + POLL + EPS):
                    return f"client {a} (polling handler): datagram #{j} arrived at {x['t']}, own queue free at {fin_prev}, handled at {t_seen} (expected within {POLL} s after {start})"
                fin_prev = t_seen + (0 if x["bad"] else x["work"])
                continue
            if abs(t_seen - start) > EPS:
                other = [y for y in sc["arrivals"] if y["addr"] != a and y["work"] > 0]
                return f"client {a}: datagram #{j} arrived at {x['t']}, own queue free at {fin_prev}, handled at {t_seen} (expected {start})" + (" - delayed although only other clients were busy" if t_seen > start and other else "")
            fin_prev = start + (0 if x["bad"] else x["work"])
            if ctx is not None and abs(x["t"] - fin_prev) < 1e-9 and j > 0:
                pass
        # gauge
        for e in log:
            if e[0] == "gen-start" and e[1] == a and e[4] > 1:
                return f"client {a}: {e[4]} handler generators alive at once (t={e[3]})"
        if res["live"].get(a, 0) != 0:
            return f"client {a}: {res['live'][a]} generators still alive at the end"
    if sc["reply"]:
        exp = sum(1 for x in sc["arrivals"] if not x["bad"])
        if len(res["sent"]) != exp:
            return f"{len(res['sent'])} replies sent for {exp} valid requests"
    if ctx is not None:
        ctx.count("datagrams_checked", len(sc["arrivals"]))
        if any(x["bad"] for x in sc["arrivals"]):
            ctx.count("malformed_datagrams")
        if sc.get("level") == "high":
            ctx.count("level:high")
        if res.get("escaped_timeouts"):
            ctx.count("handler_let_timeout_escape")
        if res.get("restarted"):
            ctx.count("serve_restarted_on_same_listener")
        if res.get("early"):
            ctx.count("datagrams_before_serve", res["early"])
        if res.get("teardown_recancelled"):
            ctx.count("harness_teardown_cancel_swallowed_by_handler_scope")
        if any(e[0] == "timeout" for e in log):
            ctx.count("timeouts_thrown")
        # a wait with an already expired deadline while a datagram of that client is queued (second or later yield of a generator)
        for a in range(A):
            if sc["timeout"][a] == 0:
                reqs = [e for e in log if e[0] == "req" and e[1] == a]
                arrs_a = [x for x in sc["arrivals"] if x["addr"] == a]
                if any(e[3] - t0 > arrs_a[j]["t"] + EPS for j, e in enumerate(reqs) if j < len(arrs_a)):
                    ctx.count("expired_deadline_with_queued_datagram")
                    break
        for m in ("timeout-scope", "move-on-scope"):
            if any(sc["timeout"][a] is not None and sc.get("tmode", [])[a] == m for a in range(A) if a < len(sc.get("tmode", []))):
                ctx.count(f"handler_wait:{m}")
        # arrival at the very instant a handler finishes
        fins = {(e[1], e[3]) for e in log if e[0] == "gen-finally"}
        if any((e[1], e[3]) in fins for e in log if e[0] == "arrive"):
            ctx.count("arrival_same_instant_as_completion")
        # fresh generator started although the queue was not empty (second generator of a client right at the end of the first)
        for a in range(A):
            st = [e for e in log if e[0] == "gen-start" and e[1] == a]
            fi = [e for e in log if e[0] == "gen-finally" and e[1] == a]
            if any(abs(s[3] - f[3]) < 1e-9 for s in st[1:] for f in fi):
                ctx.count("fresh_generator_with_nonempty_queue")
                break
        busy = {}
        for a in range(A):
            t = 0.0
            for x in [y for y in sc["arrivals"] if y["addr"] == a]:
                s = max(x["t"], t)
                t = s + x["work"]
                if x["work"]:
                    busy.setdefault(a, []).append((s, t))
        if any(s1 < e2 and s2 < e1 for a in busy for b in busy if a < b for s1, e1 in busy[a] for s2, e2 in busy[b]):
            ctx.count("two_clients_overlapping")
    return None


def plan(tier: str, seed: int) -> list[dict]:
    n = 300 if tier == "quick" else 40000
    return [{"seed": seed * 1000 + k, "scripts": n} for k in range(16)]


def run_shard(params: dict, ctx) -> None:
    rng = random.Random(params["seed"])
    for i in range(params["scripts"]):
        if ctx.should_stop(100):
            return
        sc = gen_script(rng)
        ctx.count(f"listener:{sc['listener']}")
        res = run_script(sc)
        why = decide(sc, res, ctx)
        A = len(sc["k"])
        ctx.case(A >= 2 or len(sc["arrivals"]) >= 3, repr(sc))
        if why:
            cat = "deadlock" if "deadlock" in why else "server-ended" if "serve()" in why else "cross-client-delay" if "other clients" in why else "timing" if "handled at" in why else "gauge" if "alive" in why else "fifo-or-loss"
            ctx.violation(f"{cat}:{sc['listener']}", why, {"script": sc, "log_tail": [list(map(str, e)) for e in res["log"][-14:]]})
        if i == 0:
            ctx.sample(sc)
        if i % 4 == 3:
            bsc, bwhy, bres = backpressure_case(rng)
            ctx.case(True, "backpressure", repr(bsc))
            ctx.count("backpressure_cases")
            blog = bres["log"]
            if any(e[0] == "reply-abandoned" for e in blog):
                ctx.count("backpressure_reply_abandoned_by_its_timeout")
                if any(e[0] == "replied" and e[3] >= bsc["resume_at"] - EPS for e in blog):
                    ctx.count("backpressure_other_client_resumed_after_an_abandoned_reply")
            if bwhy:
                cat = "deadlock" if "deadlock" in bwhy else "cross-client-failure" if "another client" in bwhy else "fifo-or-loss"
                ctx.violation(f"{cat}:backpressure", bwhy, {"backpressure": bsc, "log_tail": [list(map(str, e)) for e in blog[-14:]], "seed": params["seed"], "index": i})


def replay(witness: dict, ctx) -> None:
    if "backpressure" in witness:
        run_shard({"seed": witness["seed"], "scripts": witness["index"] + 1}, ctx)
        return
    sc = witness["script"]
    res = run_script(sc)
    why = decide(sc, res, None)
    if why:
        ctx.violation("replayed", why, witness)
