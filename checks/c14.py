"""C14 — closing releases the underlying resource at every cancellation point.

Monitor: every close path is first run uncancelled on the virtual loop to count its loop iterations K; then the same scenario
is re-run for every k in 0..K+2 with the closing task cancelled in iteration k (both slots: before and after that iteration's
I/O callbacks), by task.cancel() and by an enclosing cancel scope, combined with faults of the wrapped transport (close /
send / receive raising, slow close, silent peer). Oracle: once the close operation has started and its task has finished with
any outcome, every wrapped transport has had its aclose() entered and is closed, the outer object reports is_closing(), and a
second close returns within a few loop iterations and zero virtual seconds. A cancellation request delivered while the close
operation was suspended is never dropped: if the operation returns normally, CancelledError is raised at one of the next checkpoints.
"""

from __future__ import annotations

import asyncio
import random
import socket
from typing import Any, Callable

from easynetwork.lowlevel.api_async.backend._asyncio.backend import AsyncIOBackend
from easynetwork.lowlevel.api_async.endpoints.stream import AsyncStreamEndpoint
from easynetwork.lowlevel.api_async.servers.stream import AsyncStreamServer, ConnectedStreamClient
from easynetwork.lowlevel.api_async.transports.composite import AsyncStapledDatagramTransport, AsyncStapledStreamTransport
from easynetwork.lowlevel.api_async.transports.tls import AsyncTLSStreamTransport
from easynetwork.lowlevel.api_async.transports.utils import aclose_forcefully
from easynetwork.lowlevel._stream import StreamDataProducer
from easynetwork.protocol import StreamProtocol
from easynetwork.serializers import StringLineSerializer

from vlib import netutil  # noqa: E402
from vlib import memtransport, tlspeer, vloop

PROPERTY = "C14"
LEVEL = "fault_enumeration"
RULE = (
    "case = (close path, fault variant of the wrapped transport / peer behaviour, cancellation spec in {none} U {task.cancel, "
    "scope.cancel} x {iteration k in 0..K+2 of the close} x {before I/O, after I/O}); K is measured on the uncancelled run of the "
    "same scenario, so the enumeration is complete per scenario (thorough tier: also every ordered pair of requests, the second one a "
    "task.cancel() landing while the first is being handled). Paths: TLS aclose, TLS wrap, stapled stream/datagram close, "
    "aclose_forcefully, socket adapter close on a real socket, endpoint close, async TCP client close (idle / behind a sender), "
    "server-side client close, stream-server client task teardown. non-trivial = the cancellation landed while the close "
    "operation was in progress (started and not finished); distinct = distinct (path, variant, spec)"
)
ASSUMPTIONS = [
    "a wrapped in-memory transport counts as closed once its aclose() has been entered (like a real socket, it releases its resource when close is requested, whatever then happens to the caller)",
    "real-socket adapter: closed = asyncio transport is_closing() and, with a cooperative peer, fileno() == -1 within 5 iterations; abort() on cancellation is not required (pinned unit tests forbid it)",
    "promptness of the second close: <= 6 loop iterations and 0 virtual seconds",
]
REQUIRED = [
    "path:tls-aclose",
    "path:tls-wrap",
    "path:stapled-stream",
    "path:stapled-datagram",
    "path:aclose-forcefully",
    "path:socket-adapter",
    "path:endpoint",
    "path:client-idle",
    "path:client-behind-sender",
    "path:client-connecting",
    "path:server-client",
    "path:server-client-behind-sender",
    "path:server-teardown",
    "cancel_in:close_notify_send",
    "cancel_in:close_notify_wait",
    "cancel_in:shutdown_timeout_or_wrapped_close",
    "cancel_in:aclose_forcefully",
    "cancel_in:stapled_second_half",
    "cancel_in:send_lock_wait",
    "cancellations_landed_in_progress",
    "second_close_checked",
    "cancel_delivered_during_close",
]
EXHAUSTIVE = {"quick": True, "thorough": True}
WATCHDOG = {"quick": 1200, "thorough": 7200}


class Scen:
    def __init__(self) -> None:
        self.closer: Callable[[], Any] | None = None
        self.second: Callable[[], Any] | None = None
        self.wrapped: list = []
        self.outer_closing: Callable[[], bool] | None = None
        self.background: list = []
        self.cleanup: list = []
        self.expect_closed_only_on_failure = False  # TLS wrap: on success nothing must be closed
        self.real_check: Callable[[], Any] | None = None
        self.notes: dict = {}


def _dummy_pair():
    return netutil.tcp_pair(nodelay=False)


# ------------------------------------------------------------------------------------------ scenario builders


async def build_tls_aclose(loop, backend, variant: str, std: bool) -> Scen:
    sc = Scen()
    a, b = memtransport.stream_pair(backend)
    peer = tlspeer.AsyncPeer(b, tlspeer.server_context("1.3"), server_side=True)
    hs = asyncio.ensure_future(peer.handshake())
    t = await AsyncTLSStreamTransport.wrap(a, tlspeer.client_context("1.3"), server_hostname="localhost", standard_compatible=std, handshake_timeout=100, shutdown_timeout=2.0)
    await hs
    await peer.drain()
    # consume the session tickets so that the close starts from a quiet state
    for _ in range(3):
        await asyncio.sleep(0)

    async def peer_behaviour():
        try:
            if variant == "peer-answers":
                await peer.read_until_end()
                await peer.unwrap()
            elif variant == "peer-answers-late":
                await peer.read_until_end()
                await asyncio.sleep(1.0)
                await peer.unwrap()
            elif variant == "peer-closed-first":
                pass
            else:
                await peer.read_until_end()  # never answers
        except Exception:  # noqa: BLE001
            pass

    if variant == "peer-closed-first":
        await peer.unwrap()
        await peer.drain()
        buf = bytearray(100)
        try:
            await t.recv_into(buf)
        except Exception:  # noqa: BLE001
            pass
    sc.background.append(asyncio.ensure_future(peer_behaviour()))
    if variant == "wrapped-send-raises":
        a.send_faults[a.n_send + 1] = ConnectionResetError(104, "scripted")
    elif variant == "wrapped-recv-raises":
        a.recv_faults[a.n_recv + 1] = ConnectionResetError(104, "scripted")
    elif variant == "wrapped-aclose-raises":
        a.aclose_script = [("raise", OSError(5, "scripted close failure"))]
    elif variant == "wrapped-aclose-slow":
        a.aclose_script = [("sleep", 2.0)]
    elif variant == "wrapped-send-slow":
        a.send_yield = 3
    sc.closer = t.aclose
    sc.second = t.aclose
    sc.wrapped = [a]
    sc.outer_closing = t.is_closing
    return sc


async def build_tls_wrap(loop, backend, variant: str, std: bool) -> Scen:
    sc = Scen()
    a, b = memtransport.stream_pair(backend)
    holder: dict = {}
    if variant == "garbage":
        b_task = asyncio.ensure_future(b.send_all(b"HTTP/1.1 400 Bad Request\r\n\r\n" * 3))
        sc.background.append(b_task)
    elif variant == "stall":
        pass
    elif variant.startswith("eof-after-"):
        k = int(variant.split("-")[-1])
        peer = tlspeer.AsyncPeer(b, tlspeer.server_context("1.3"), server_side=True)

        class Cut:
            def __init__(self, target):
                self.target, self.sent, self.eof = target, 0, False

            def feed(self, data):
                if self.eof:
                    return
                n = min(len(data), k - self.sent)
                if n > 0:
                    self.target.feed(data[:n])
                    self.sent += n
                if self.sent >= k:
                    self.eof = True
                    self.target.feed_eof()

            def feed_eof(self):
                if not self.eof:
                    self.eof = True
                    self.target.feed_eof()

        b.outgoing = Cut(a.incoming)  # type: ignore[assignment]
        if k == 0:
            b.outgoing.feed(b"")

        async def hs():
            try:
                await peer.handshake()
            except Exception:  # noqa: BLE001
                pass

        sc.background.append(asyncio.ensure_future(hs()))
    else:  # "ok" / "slow-peer"
        peer = tlspeer.AsyncPeer(b, tlspeer.server_context("1.3"), server_side=True)
        if variant == "slow-peer":
            peer.frag = 200
            b.send_sleep = 0.25

        async def hs():
            try:
                await peer.handshake()
                await peer.read_until_end()
            except Exception:  # noqa: BLE001
                pass

        sc.background.append(asyncio.ensure_future(hs()))

    async def closer():
        t = await AsyncTLSStreamTransport.wrap(a, tlspeer.client_context("1.3"), server_hostname="localhost", standard_compatible=std, handshake_timeout=1.0, shutdown_timeout=0.5)
        holder["t"] = t

    async def second():
        t = holder.get("t")
        if t is not None:
            await t.aclose()
        else:
            await a.aclose()

    sc.closer = closer
    sc.second = second
    sc.wrapped = [a]
    sc.outer_closing = lambda: True
    sc.expect_closed_only_on_failure = True
    sc.notes["holder"] = holder
    return sc


async def build_stapled(loop, backend, variant: str, datagram: bool) -> Scen:
    sc = Scen()
    if datagram:
        r, s = memtransport.MemDatagramTransport(backend), memtransport.MemDatagramTransport(backend)
        st: Any = AsyncStapledDatagramTransport(s, r)
    else:
        r, s = memtransport.MemStreamTransport(backend, name="recv"), memtransport.MemStreamTransport(backend, name="send")
        st = AsyncStapledStreamTransport(s, r)
    first, second = s, r  # close order: send transport is closed first (exit stack unwinds), then the receive transport
    spec = {
        "ok": ([], []),
        "first-raises": ([("raise", OSError(5, "first"))], []),
        "second-raises": ([], [("raise", OSError(5, "second"))]),
        "both-raise": ([("raise", OSError(5, "first"))], [("raise", OSError(5, "second"))]),
        "first-slow": ([("sleep", 1.0)], []),
        "second-slow": ([("yield", 2)], [("sleep", 1.0)]),
        "both-slow": ([("yield", 3)], [("yield", 3)]),
    }[variant]
    first.aclose_script, second.aclose_script = spec
    sc.closer = st.aclose
    sc.second = st.aclose
    sc.wrapped = [r, s]
    sc.outer_closing = st.is_closing
    return sc


async def build_forcefully(loop, backend, variant: str) -> Scen:
    sc = Scen()
    m = memtransport.MemStreamTransport(backend)
    m.aclose_script = {"ok": [], "slow": [("sleep", 1.0)], "yield": [("yield", 3)], "raises": [("raise", OSError(5, "x"))]}[variant]
    sc.closer = lambda: aclose_forcefully(m)
    sc.second = lambda: aclose_forcefully(m)
    sc.wrapped = [m]
    sc.outer_closing = m.is_closing
    return sc


async def build_endpoint(loop, backend, variant: str) -> Scen:
    sc = Scen()
    m = memtransport.MemStreamTransport(backend)
    m.aclose_script = {"ok": [], "slow": [("sleep", 1.0)], "yield": [("yield", 3)], "raises": [("raise", OSError(5, "x"))]}[variant]
    ep = AsyncStreamEndpoint(m, StreamProtocol(StringLineSerializer()), max_recv_size=1024)
    sc.closer = ep.aclose
    sc.second = ep.aclose
    sc.wrapped = [m]
    sc.outer_closing = ep.is_closing
    return sc


class MemBackend(AsyncIOBackend):
    def __init__(self, factory) -> None:
        super().__init__()
        self._factory = factory

    async def wrap_stream_socket(self, sock):
        sock.setblocking(False)
        return self._factory(sock)


async def build_client(loop, backend, variant: str, behind_sender: bool) -> Scen:
    from easynetwork.clients.async_tcp import AsyncTCPNetworkClient

    sc = Scen()
    c, s = _dummy_pair()
    sc.cleanup += [c.close, s.close]
    m = memtransport.MemStreamTransport(backend)
    m.use_socket_extras(c)
    m.aclose_script = {"ok": [], "slow": [("sleep", 1.0)], "yield": [("yield", 3)], "raises": [("raise", OSError(5, "x"))]}[variant]
    mb = MemBackend(lambda sock: m)
    m._backend = mb
    cli = AsyncTCPNetworkClient(c, StreamProtocol(StringLineSerializer()), mb)
    await cli.wait_connected()
    if behind_sender:
        m.send_block = asyncio.Event()

        async def sender():
            try:
                await cli.send_packet("x" * 100)
            except Exception:  # noqa: BLE001
                pass

        st = asyncio.ensure_future(sender())
        sc.background.append(st)
        for _ in range(3):
            await asyncio.sleep(0)
        # the sender releases the lock a little later (in virtual time), unless it is cancelled first
        loop.call_later(1.0, m.send_block.set)
    sc.closer = cli.aclose
    sc.second = cli.aclose
    sc.wrapped = [m]
    sc.outer_closing = cli.is_closing
    return sc


async def build_client_connecting(loop, backend, variant: str) -> Scen:
    """AsyncTCPNetworkClient closed from another task while its first wait_connected() is still inside the connection set-up
    (wrap_stream_socket suspended): once aclose() has ended the client stays closed, and a transport that the interrupted set-up
    still produces is closed, not adopted"""
    from easynetwork.clients.async_tcp import AsyncTCPNetworkClient

    sc = Scen()
    c, s = _dummy_pair()
    sc.cleanup += [c.close, s.close]
    m = memtransport.MemStreamTransport(backend)
    m.use_socket_extras(c)
    m.aclose_script = {"ok": [], "slow": [("sleep", 1.0)], "yield": [("yield", 3)], "raises": [("raise", OSError(5, "x"))]}[variant]
    gate = asyncio.Event()
    state = {"handed_out": False}

    class SlowBackend(MemBackend):
        async def wrap_stream_socket(self, sock):
            await gate.wait()
            state["handed_out"] = True
            return await super().wrap_stream_socket(sock)

    mb = SlowBackend(lambda sock: m)
    m._backend = mb
    cli = AsyncTCPNetworkClient(c, StreamProtocol(StringLineSerializer()), mb)

    async def waiter():
        try:
            await cli.wait_connected()
            state["wc"] = "ok"
        except asyncio.CancelledError:
            raise
        except BaseException as exc:  # noqa: BLE001
            state["wc"] = type(exc).__name__

    wt = asyncio.ensure_future(waiter())
    sc.background.append(wt)
    for _ in range(3):
        await asyncio.sleep(0)

    async def real_check():
        gate.set()  # whatever is still waiting in the connection set-up may now go on
        for _ in range(12):
            await asyncio.sleep(0)
        if not cli.is_closing():
            return f"the client is not closed although aclose() ended while the connect was in progress (wait_connected: {state.get('wc', 'pending')}; is_closing() is False)"
        if state["handed_out"] and not m.closed:
            return "the transport produced by the interrupted connection set-up was left open"
        return None

    sc.closer = cli.aclose
    sc.second = cli.aclose
    sc.wrapped = []
    sc.outer_closing = None
    sc.real_check = real_check
    return sc


async def build_server_client(loop, backend, variant: str, behind_sender: bool) -> Scen:
    from easynetwork.lowlevel.socket import new_socket_address
    from easynetwork.servers.async_tcp import _ConnectedClientAPI

    sc = Scen()
    c, s = _dummy_pair()
    sc.cleanup += [c.close, s.close]
    m = memtransport.MemStreamTransport(backend)
    m.use_socket_extras(c)
    m.aclose_script = {"ok": [], "slow": [("sleep", 1.0)], "yield": [("yield", 3)], "raises": [("raise", OSError(5, "x"))]}[variant]
    low = ConnectedStreamClient(_transport=m, _producer=StreamDataProducer(StreamProtocol(StringLineSerializer())))
    api = _ConnectedClientAPI(new_socket_address(c.getpeername(), c.family), low)
    if behind_sender:
        m.send_block = asyncio.Event()

        async def sender():
            try:
                await api.send_packet("x" * 100)
            except Exception:  # noqa: BLE001
                pass

        sc.background.append(asyncio.ensure_future(sender()))
        for _ in range(3):
            await asyncio.sleep(0)
        loop.call_later(1.0, m.send_block.set)
    sc.closer = api.aclose
    sc.second = api.aclose
    sc.wrapped = [m]
    sc.outer_closing = api.is_closing
    return sc


async def build_server_teardown(loop, backend, variant: str) -> Scen:
    """the client task of AsyncStreamServer: whatever the handler does, the connection's transport ends up closed"""
    sc = Scen()
    listener = memtransport.MemListener(backend)
    server = AsyncStreamServer(listener, StreamProtocol(StringLineSerializer()), max_recv_size=1024)
    m = memtransport.MemStreamTransport(backend)
    if variant.endswith("slow-close"):
        m.aclose_script = [("sleep", 1.0)]
    done = asyncio.Event()
    with_sender = variant.endswith("+sender")
    if with_sender:
        m.send_block = asyncio.Event()  # never set: the peer has stopped reading for good

    async def push(client):
        # a task of the application that pushes a notification to this client: it is suspended in the transport when the
        # connection's own task ends
        try:
            await client.send_packet("notification")
        except BaseException:  # noqa: BLE001
            pass

    async def handler(client):
        try:
            if variant.startswith("raise-before-yield"):
                raise ValueError("boom")
            req = yield None
            if with_sender:
                sc.background.append(asyncio.ensure_future(push(client)))
                for _ in range(3):
                    await asyncio.sleep(0)
            if variant.startswith("raise-after-request"):
                raise KeyError("boom")
            if variant.startswith("close-client"):
                await client.aclose()
            if variant.startswith("sleep"):
                await asyncio.sleep(5.0)
            yield None
        finally:
            done.set()

    serve_task = asyncio.ensure_future(server.serve(handler))
    sc.background.append(serve_task)
    listener.connect(m)
    m.incoming.feed(b"request-1\n")
    for _ in range(2):
        await asyncio.sleep(0)

    async def closer():
        # the "close operation" here is the natural end of the client task (or the server task being cancelled)
        if variant.startswith("sleep"):
            await asyncio.sleep(0.5)
            serve_task.cancel()
        elif variant.startswith("eof"):
            m.incoming.feed_eof()
        try:
            await asyncio.wait_for(asyncio.shield(done.wait()), 10)
        except asyncio.TimeoutError:
            pass
        for _ in range(6):
            await asyncio.sleep(0)
        if variant.endswith("slow-close"):
            await asyncio.sleep(1.5)

    async def second():
        await m.aclose()

    sc.closer = closer
    sc.second = second
    sc.wrapped = [m]
    sc.outer_closing = lambda: m.closing
    sc.notes["no_cancel"] = True  # the closer is harness code; the library part is driven by events
    return sc


async def build_socket_adapter(loop, backend, variant: str) -> Scen:
    sc = Scen()
    c, s = _dummy_pair()
    s.setblocking(False)
    sc.cleanup += [s.close]
    t = await backend.wrap_stream_socket(c)
    if variant == "pending-write":
        await t.send_all(b"x" * 1000)

    async def peer_reader():
        lp = asyncio.get_running_loop()
        try:
            while True:
                d = await lp.sock_recv(s, 65536)
                if not d:
                    return
        except OSError:
            pass

    sc.background.append(asyncio.ensure_future(peer_reader()))
    sc.closer = t.aclose
    sc.second = t.aclose
    sc.wrapped = []
    sc.outer_closing = t.is_closing
    inner = getattr(t, "_AsyncioTransportStreamSocketAdapter__transport")

    async def real_check():
        for _ in range(6):
            if c.fileno() == -1:
                break
            await asyncio.sleep(0)
        if not inner.is_closing():
            return "the asyncio transport is not closing after aclose() finished"
        if c.fileno() != -1:
            return "the socket is still open 6 iterations after aclose() finished (cooperative peer)"
        return None

    sc.real_check = real_check
    return sc


PATHS: dict[str, tuple[Callable, list]] = {}


def _register() -> None:
    tls_variants = ["peer-answers", "peer-answers-late", "peer-silent", "peer-closed-first", "wrapped-send-raises", "wrapped-recv-raises", "wrapped-aclose-raises", "wrapped-aclose-slow", "wrapped-send-slow"]
    PATHS["tls-aclose"] = (lambda loop, b, v: build_tls_aclose(loop, b, v.split("|")[0], v.endswith("|std")), [f"{v}|{m}" for v in tls_variants for m in ("std", "nonstd")])
    PATHS["tls-wrap"] = (lambda loop, b, v: build_tls_wrap(loop, b, v, True), ["ok", "slow-peer", "garbage", "stall", "eof-after-0", "eof-after-100", "eof-after-1300"])
    st_variants = ["ok", "first-raises", "second-raises", "both-raise", "first-slow", "second-slow", "both-slow"]
    PATHS["stapled-stream"] = (lambda loop, b, v: build_stapled(loop, b, v, False), st_variants)
    PATHS["stapled-datagram"] = (lambda loop, b, v: build_stapled(loop, b, v, True), st_variants)
    simple = ["ok", "slow", "yield", "raises"]
    PATHS["aclose-forcefully"] = (build_forcefully, simple)
    PATHS["endpoint"] = (build_endpoint, simple)
    PATHS["client-idle"] = (lambda loop, b, v: build_client(loop, b, v, False), simple)
    PATHS["client-behind-sender"] = (lambda loop, b, v: build_client(loop, b, v, True), simple)
    PATHS["client-connecting"] = (build_client_connecting, simple)
    PATHS["server-client"] = (lambda loop, b, v: build_server_client(loop, b, v, False), simple)
    PATHS["server-client-behind-sender"] = (lambda loop, b, v: build_server_client(loop, b, v, True), simple)
    PATHS["server-teardown"] = (build_server_teardown, ["raise-before-yield", "raise-after-request", "close-client", "sleep", "eof", "raise-after-request-slow-close", "close-client-slow-close", "eof-slow-close", "raise-after-request+sender", "sleep+sender", "eof+sender"])
    PATHS["socket-adapter"] = (build_socket_adapter, ["idle", "pending-write"])


_register()


def _phase_of(task: asyncio.Task) -> str:
    names = []
    try:
        for fr in task.get_stack(limit=40):
            names.append(fr.f_code.co_name)
    except Exception:  # noqa: BLE001
        pass
    # walk awaited coroutines for deeper frames
    coro = task.get_coro()
    seen = 0
    while coro is not None and seen < 40:
        seen += 1
        fr = getattr(coro, "cr_frame", None) or getattr(coro, "gi_frame", None) or getattr(coro, "ag_frame", None)
        if fr is not None:
            names.append(fr.f_code.co_name)
        coro = getattr(coro, "cr_await", None) or getattr(coro, "gi_yieldfrom", None) or getattr(coro, "ag_await", None)
    joined = " ".join(names)
    if "aclose_forcefully" in joined:
        return "aclose_forcefully"
    if "_try_graceful_close" in joined and joined.count("_try_graceful_close") >= 1 and "aclose" in joined:
        return "stapled_second_half" if "_close_stapled_transports" in joined else "other"
    if "_retry_ssl_method" in joined and ("send_all" in joined):
        return "close_notify_send"
    if "_retry_ssl_method" in joined and ("readinto" in joined or "recv_into" in joined):
        return "close_notify_wait"
    if "acquire" in joined or "__aenter__" in joined and "Lock" in joined:
        return "send_lock_wait"
    if "aclose" in joined:
        return "shutdown_timeout_or_wrapped_close"
    return "other"


def run_one(path: str, variant: str, spec: tuple | None) -> dict:
    """spec: None | (kind, k, slot)"""
    builder = PATHS[path][0]
    res: dict[str, Any] = {"started": False, "outcome": None}

    async def main(loop):
        backend = AsyncIOBackend()
        sc = await builder(loop, backend, variant)
        res["sc"] = sc
        scope = backend.open_cancel_scope()

        async def after_close():
            # the close operation returned normally. If a cancellation request reached this task while it was inside it, the
            # request is still owed: it is delivered at one of the next checkpoints (shielded sections delay it, nothing may drop it)
            res["closer_returned"] = True
            if res.get("fired_in_progress"):
                for _ in range(3):
                    await asyncio.sleep(0)
                res["survived_checkpoints"] = True

        async def closing():
            res["started"] = True
            res["it_start"] = loop.iteration
            try:
                if spec is not None and spec[0] == "scope":
                    with scope:
                        await sc.closer()
                        await after_close()
                    if scope.cancelled_caught():
                        return "cancelled-by-scope"
                else:
                    await sc.closer()
                    await after_close()
                return "ok"
            finally:
                res["it_end"] = loop.iteration
                res["t_end"] = loop.time()

        t0 = loop.time()
        task = asyncio.ensure_future(closing())
        k0 = loop.iteration + 1  # the closing task takes its first step in the next iteration
        if spec is not None:
            kind, k, slot = spec[:3]

            def fire():
                if task.done():
                    return
                res["fired_in_progress"] = res["started"]
                res["phase"] = _phase_of(task)
                entered = [w.aclose_entered > 0 for w in sc.wrapped]
                if path.startswith("stapled") and res["started"]:
                    res["phase"] = "stapled_second_half" if (any(entered) and not all(entered)) or (all(entered) and not all(w.closed for w in sc.wrapped)) else ("stapled_first_half" if not any(entered) else "stapled_done")
                if kind == "task":
                    task.cancel()
                else:
                    scope.cancel()

            (loop.before_io if slot == "before" else loop.after_io)(k0 + k, fire)
            if len(spec) > 3:
                # a second request while the first one is being handled (the clean-up path runs under cancellation again):
                # always a task.cancel(), e.g. an outer timeout firing while an inner one unwinds
                def fire2():
                    if task.done():
                        return
                    res["second_fired_in_progress"] = res["started"]
                    task.cancel()

                loop.before_io(k0 + spec[3], fire2)
        try:
            res["outcome"] = await task
        except asyncio.CancelledError:
            if not task.cancelled():
                raise
            res["outcome"] = "cancelled"
        except BaseException as exc:  # noqa: BLE001
            if isinstance(exc, vloop.Quiescent):
                raise
            res["outcome"] = f"raised:{type(exc).__name__}"
        res["K"] = res.get("it_end", loop.iteration) - res.get("it_start", k0)
        res["dt"] = loop.time() - t0
        # ---- oracle part 1: wrapped transports
        failed_or_cancelled = res["outcome"] != "ok"
        problems = []
        if res["started"] and (not sc.expect_closed_only_on_failure or failed_or_cancelled):
            for w in sc.wrapped:
                if not (w.aclose_entered > 0 and w.closed):
                    problems.append(f"wrapped transport '{getattr(w, 'name', type(w).__name__)}' not closed after the close operation ended '{res['outcome']}' (aclose entered {w.aclose_entered}x)")
            if sc.outer_closing is not None and not sc.outer_closing():
                problems.append(f"is_closing() is False after the close operation ended '{res['outcome']}'")
            if sc.real_check is not None:
                p = await sc.real_check()
                if p:
                    problems.append(p)
        if res.get("survived_checkpoints") and not res.get("second_fired_in_progress"):
            problems.append(f"a cancellation request delivered while the close operation was suspended was swallowed: the operation returned normally and three further checkpoints passed without CancelledError (task.cancelling()={task.cancelling()})")
        if res.get("fired_in_progress"):
            res["cancel_during_close_observed"] = True
        # ---- oracle part 2: second close is prompt
        if res["started"] and not problems and not (sc.expect_closed_only_on_failure and not failed_or_cancelled):
            it0, tt0 = loop.iteration, loop.time()
            try:
                await asyncio.wait_for(sc.second(), 30)
                res["second"] = "ok"
            except asyncio.TimeoutError:
                problems.append("the second close did not return (30 virtual seconds)")
            except asyncio.CancelledError:
                cur = asyncio.current_task()
                if cur is not None and cur.cancelling():
                    raise
                problems.append("the second close raised CancelledError although nobody cancelled it (a cancelled first close poisoned what the second one waits on)")
            except Exception as exc:  # noqa: BLE001
                res["second"] = f"raised:{type(exc).__name__}"
            if loop.time() - tt0 > 0.05 or loop.iteration - it0 > 6:
                problems.append(f"the second close took {loop.iteration - it0} iterations and {loop.time() - tt0} virtual seconds")
        res["problems"] = problems
        for bg in sc.background:
            bg.cancel()
        await asyncio.gather(*sc.background, return_exceptions=True)
        for fn in sc.cleanup:
            try:
                fn()
            except OSError:
                pass

    try:
        vloop.run(main)
    except vloop.Quiescent as exc:
        res["problems"] = [f"deadlock: {exc}"]
    res.pop("sc", None)
    return res


def plan(tier: str, seed: int) -> list[dict]:
    shards = []
    for path, (_, variants) in PATHS.items():
        for v in variants:
            shards.append({"seed": seed, "path": path, "variant": v, "kinds": ["task", "scope"]})
    # group shards into ~32 work units
    units: list[dict] = []
    per = max(1, len(shards) // 32)
    for i in range(0, len(shards), per):
        units.append({"seed": seed, "items": shards[i : i + per], "tier": tier})
    return units


def run_shard(params: dict, ctx) -> None:
    for item in params["items"]:
        path, variant = item["path"], item["variant"]
        ctx.count(f"path:{path}")
        base = run_one(path, variant, None)
        ctx.case(False, path, variant, None)
        _judge(ctx, path, variant, None, base)
        K = max(1, base.get("K", 1))
        if path == "server-teardown":
            continue
        for kind in item["kinds"]:
            for k in range(0, K + 3):
                for slot in ("before", "after"):
                    if ctx.should_stop(150):
                        return
                    spec = (kind, k, slot)
                    r = run_one(path, variant, spec)
                    inprog = bool(r.get("fired_in_progress"))
                    ctx.case(inprog, path, variant, spec)
                    if inprog:
                        ctx.count("cancellations_landed_in_progress")
                        ctx.count(f"cancel_in:{r.get('phase', 'other')}")
                    _judge(ctx, path, variant, spec, r)
        if params.get("tier") == "thorough":
            # every ordered pair of cancellation points (first request in iteration k, second one in iteration k2 > k)
            for kind in item["kinds"]:
                for k in range(0, K + 2):
                    for k2 in range(k + 1, min(K + 6, k + 12)):
                        if ctx.should_stop(150):
                            return
                        spec = (kind, k, "before", k2)
                        r = run_one(path, variant, spec)
                        both = bool(r.get("fired_in_progress")) and bool(r.get("second_fired_in_progress"))
                        ctx.case(both, path, variant, spec)
                        if both:
                            ctx.count("double_cancellations_landed_in_progress")
                        _judge(ctx, path, variant, spec, r)
        ctx.sample({"path": path, "variant": variant, "uncancelled_iterations_K": K, "uncancelled_outcome": base.get("outcome"), "specs": f"(task|scope) x k in 0..{K + 2} x (before|after I/O)"}, limit=4)


def _judge(ctx, path, variant, spec, r) -> None:
    if "second" in r or any("second close" in p for p in r.get("problems", [])):
        ctx.count("second_close_checked")
    if r.get("cancel_during_close_observed"):
        ctx.count("cancel_delivered_during_close")
        if r.get("closer_returned"):
            ctx.count("close_returned_normally_after_cancel")
    for p in r.get("problems", []):
        phase = r.get("phase", "-")
        if "deadlock" in p:
            key = f"deadlock:{path}"
        elif "second close" in p:
            key = f"second-close-not-prompt:{path}"
        elif "was swallowed" in p:
            key = f"cancel-swallowed:{path}:cancel-in-{phase}"
        elif "not closed" in p or "is_closing" in p or "still open" in p or "not closing" in p:
            key = f"left-open:{path}:cancel-in-{phase}" if spec is not None else f"left-open:{path}:no-cancel"
            # the two recorded findings have one precise shape each: anything else in the same place is a new violation
            oc = str(r.get("outcome"))
            if key == "left-open:server-client-behind-sender:cancel-in-send_lock_wait" and oc != "raised:BusyResourceError":
                key += f":{oc.split(':')[0]}"  # known shape: the forced close is attempted and refused by the send guard
            if key == "left-open:client-behind-sender:cancel-in-send_lock_wait" and not oc.startswith("cancelled"):
                key += f":{oc.split(':')[0]}"  # known shape: the cancellation propagates and nothing is closed
        else:
            key = f"other:{path}"
        ctx.violation(key, f"[{path}/{variant}] spec={spec} outcome={r.get('outcome')}: {p}", {"path": path, "variant": variant, "spec": list(spec) if spec else None, "phase": phase})


def replay(witness: dict, ctx) -> None:
    spec = tuple(witness["spec"]) if witness.get("spec") else None
    r = run_one(witness["path"], witness["variant"], spec)
    _judge(ctx, witness["path"], witness["variant"], spec, r)
