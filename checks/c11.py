"""C11 — a timeout is a budget for the whole blocking operation.

Monitor: virtual clock + virtual selector + scripted arrival. The bytes of a packet reach the socket at scripted virtual
times (drip, bursts, spurious readiness); the lock may be held until a scripted time. Observed: virtual time at call and
at return/raise, every select(timeout) argument, the outcome. Oracle: elapsed <= T (+0.05); T == 0 never waits;
TimeoutError iff the last needed byte arrives later than T (a 0.05 band either way); iterators: total wait <= T.
"""

from __future__ import annotations

import asyncio
import math
import random
import threading
import selectors as _real_selectors
import socket
from typing import Any

from easynetwork.lowlevel import _lock, _utils
from easynetwork.lowlevel.api_sync.endpoints.stream import StreamEndpoint
from easynetwork.lowlevel.api_sync.transports import base_selector
from easynetwork.lowlevel.api_sync.transports.socket import SocketDatagramTransport, SocketStreamTransport
from easynetwork.protocol import BufferedStreamProtocol, DatagramProtocol, StreamProtocol
from easynetwork.serializers import StringLineSerializer

from vlib import netutil  # noqa: E402
from vlib import faultsock, vselect
from vlib.runner import HangDetected, cpu_guard

PROPERTY = "C11"
LEVEL = "exploration"
RULE = (
    "case = (operation kind, arrival schedule of the packet's bytes in virtual time incl. spurious readiness and already-present data, "
    "timeout in {0, finite, None, math.inf}, retry_interval in {0.1, 1, inf}, lock hold time); kinds: transport recv / recv_into, endpoint "
    "recv_packet (both paths), TCP/UDP client recv_packet with lock contention, iter_received_packets, send_packet against a slow "
    "peer, TLS blocking transport, AsyncClientRecvIterator on the virtual loop. non-trivial = at least 2 partial arrivals or a "
    "lock wait, and a finite timeout; distinct = distinct (kind, schedule, timeout, retry_interval, lock hold)"
)
ASSUMPTIONS = [
    "time is virtual: ElapsedTime and the selector read the harness clock, lock waits advance the same clock; processing time is zero",
    "tolerance band of 0.05 virtual seconds around the deadline in which either outcome is accepted; all generated times are multiples of 0.25",
]
REQUIRED = [
    "kind:transport-recv",
    "kind:endpoint-recv",
    "kind:client-recv-lock",
    "kind:client-iter",
    "kind:udp-client-recv",
    "kind:endpoint-send",
    "kind:client-send-lock",
    "other_lock_held_meanwhile",
    "kind:async-iter",
    "timeouts_raised",
    "returned_in_time",
    "zero_timeout_cases",
    "retry_interval_wakeups",
    "spurious_readiness",
    "lock_waits",
    "drip_3plus_partial_reads",
]
WATCHDOG = {"quick": 900, "thorough": 7200}
EPS = 0.05


class ReadWorld(vselect.World):
    """arrivals: [(t_abs, bytes | None)] sorted; None = spurious readiness"""

    def __init__(self, clock, peer: socket.socket, arrivals: list, t0: float) -> None:
        super().__init__(clock)
        self.peer = peer
        self.arrivals = [(t0 + t, d) for t, d in arrivals]
        self.max_select_timeout_when_T0: float = 0.0
        self.spurious = 0

    def deliver_due(self) -> None:
        while self.arrivals and self.arrivals[0][0] <= self.clock.now and self.arrivals[0][1] is not None:
            _, d = self.arrivals.pop(0)
            self.peer.send(d)

    def on_select(self, fileno, event, timeout):
        if event != _real_selectors.EVENT_READ:
            return True
        if not self.arrivals:
            if timeout is None:
                raise vselect_block_forever()
            self.clock.advance(timeout)
            return False
        te, d = self.arrivals[0]
        wait = max(0.0, te - self.clock.now)
        if timeout is None or wait <= timeout:
            self.clock.advance(wait)
            self.arrivals.pop(0)
            if d is None:
                self.spurious += 1
            else:
                self.peer.send(d)
            return True
        self.clock.advance(timeout)
        return False


class BlockForever(BaseException):
    pass


def vselect_block_forever() -> BaseException:
    return BlockForever("select() with no timeout and nothing will ever arrive")


def _j(T):
    return "inf" if T == math.inf else T


class VirtualLock:
    def __init__(self, clock, held_until: float | None) -> None:
        self.clock = clock
        self.held_until = held_until
        self.owned = False
        self.waits = 0

    def acquire(self, blocking: bool = True, timeout: float = -1) -> bool:
        if self.owned:
            raise RuntimeError("harness lock re-acquired")
        # argument checks of the real thing (ValueError / OverflowError for what threading.Lock refuses, e.g. an infinite timeout)
        threading.Lock().acquire(blocking, timeout)
        if self.held_until is None or self.held_until <= self.clock.now:
            self.owned = True
            return True
        if not blocking:
            return False
        self.waits += 1
        wait = self.held_until - self.clock.now
        if timeout is None or timeout < 0 or wait <= timeout:
            self.clock.advance(wait)
            self.owned = True
            return True
        self.clock.advance(timeout)
        return False

    def release(self) -> None:
        self.owned = False

    def __enter__(self):
        self.acquire()
        return self

    def __exit__(self, *a):
        self.release()

    def locked(self) -> bool:
        return self.owned


class _SelectorsShim:
    def __init__(self, world) -> None:
        self._world = world
        self.PollSelector = vselect.selector_factory(world)
        self.SelectSelector = self.PollSelector

    def __getattr__(self, name):
        return getattr(_real_selectors, name)


def gen_arrivals(rng: random.Random, payload: bytes) -> list:
    """times are multiples of 0.25; returns [(t, bytes|None)]"""
    mode = rng.randrange(5)
    n = len(payload)
    if mode == 0:
        pieces = [payload]
    elif mode == 1:
        k = rng.randint(2, min(6, n))
        cuts = sorted(rng.sample(range(1, n), k - 1))
        pieces = [payload[a:b] for a, b in zip([0] + cuts, cuts + [n])]
    elif mode == 2:
        pieces = [payload[i : i + 1] for i in range(n)]
    elif mode == 3:
        pieces = [payload[: n // 2], payload[n // 2 :]]
    else:
        pieces = [payload[:1], payload[1:-1], payload[-1:]]
        pieces = [p for p in pieces if p]
    t = rng.choice([0.0, 0.0, 0.25, 1.0])
    out = []
    for p in pieces:
        out.append((t, p))
        if rng.random() < 0.25:
            out.append((t + 0.0, None))
        t += rng.choice([0.0, 0.25, 0.25, 0.5, 1.0, 2.5])
    out.sort(key=lambda x: x[0])
    # keep data order (stable sort keeps insertion order for equal times)
    return out


def t_last_of(arrivals: list) -> float:
    return max(t for t, d in arrivals if d is not None)


def decide(kind: str, T: float | None, elapsed: float, outcome: str, t_complete: float, world, extra: str = "") -> str | None:
    Tn = math.inf if T is None else T
    if Tn != math.inf and elapsed > Tn + EPS:
        return f"virtual time spent {elapsed} exceeds the timeout {Tn}"
    if Tn == 0:
        waits = [t for ev, t in world.select_calls if t is None or t > 0]
        if waits:
            return f"zero timeout but the selector was asked to wait {waits[:3]}"
    if outcome == "timeout":
        if Tn == math.inf:
            return "TimeoutError with no timeout"
        if t_complete < Tn - EPS:
            return f"TimeoutError although the operation could complete at {t_complete} < timeout {Tn}{extra}"
    elif outcome == "ok":
        if t_complete > Tn + EPS:
            return f"returned although the last byte arrives at {t_complete} > timeout {Tn}"
        if elapsed + EPS < t_complete and Tn != 0:
            return f"returned after {elapsed} but the data is complete only at {t_complete}"
    else:
        return f"unexpected outcome {outcome}"
    return None


def _mk_pair():
    a, b = socket.socketpair()
    a.setblocking(False)
    b.setblocking(False)
    return a, b


def scenario_stream(ctx, kind: str, rng: random.Random, T: float | None, retry: float, tag) -> None:
    payload = b"hello world 0123456789\n"
    arrivals = gen_arrivals(rng, payload)
    held_until = None
    clock = vselect.VirtualClock()
    if kind == "client-recv-lock":
        a, peer = _tcp_pair()
        peer.setblocking(False)
    else:
        a, peer = _mk_pair()
    t0 = clock.now
    world = ReadWorld(clock, peer, arrivals, t0)
    world.deliver_due()  # data already present at call time
    buffered = rng.random() < 0.5
    outcome = "?"
    t_complete = t_last_of(arrivals)
    lock_wait = 0.0
    old_sel = base_selector.selectors
    try:
        with vselect.virtual_time(clock):
            base_selector.selectors = _SelectorsShim(world)  # type: ignore[assignment]
            try:
                with cpu_guard(20):
                    if kind == "transport-recv":
                        tr = SocketStreamTransport(a, retry_interval=retry, selector_factory=vselect.selector_factory(world))
                        # a single read completes at the first data arrival
                        t_complete = min(t for t, d in arrivals if d is not None)
                        if buffered:
                            n = tr.recv_into(bytearray(100), math.inf if T is None else T)
                        else:
                            n = len(tr.recv(100, math.inf if T is None else T))
                        outcome = "ok" if n else "eof"
                    elif kind == "endpoint-recv":
                        tr = SocketStreamTransport(a, retry_interval=retry, selector_factory=vselect.selector_factory(world))
                        ser = StringLineSerializer()
                        ep = StreamEndpoint(tr, BufferedStreamProtocol(ser) if buffered else StreamProtocol(ser), max_recv_size=rng.choice([1, 4, 1024]))
                        v = ep.recv_packet(timeout=T)
                        outcome = "ok" if v == payload.decode().rstrip("\n") else f"wrong packet {v!r}"
                    elif kind == "client-recv-lock":
                        from easynetwork.clients.tcp import TCPNetworkClient

                        client = TCPNetworkClient(a, StreamProtocol(StringLineSerializer()), retry_interval=retry, max_recv_size=rng.choice([1, 4, 1024]))
                        held = rng.choice([None, 0.5, 1.0, 3.0])
                        vlock = VirtualLock(clock, None if held is None else t0 + held)
                        client._TCPNetworkClient__receive_lock = _lock.ForkSafeLock(lambda: vlock)  # type: ignore[attr-defined]
                        _hold_other_lock(ctx, rng, client, "_TCPNetworkClient__send_lock", clock, t0)
                        lock_wait = held or 0.0
                        if held:
                            ctx.count("lock_waits")
                        # arrivals that fall during the lock wait are delivered when the select() catches up
                        t_complete = max(t_complete, lock_wait)
                        v = client.recv_packet(timeout=T)
                        outcome = "ok" if v == payload.decode().rstrip("\n") else f"wrong packet {v!r}"
                    else:
                        raise ValueError(kind)
            except TimeoutError:
                outcome = "timeout"
            except BlockForever:
                outcome = "blocked-forever"
            except HangDetected as exc:
                outcome = f"hang: {exc}"
            except Exception as exc:  # noqa: BLE001
                outcome = f"exception {type(exc).__name__}: {exc}"
            finally:
                base_selector.selectors = old_sel
            elapsed = clock.now - t0
    finally:
        for s_ in (a, peer):
            try:
                s_.close()
            except OSError:
                pass
    _account(ctx, kind, T, retry, arrivals, world, outcome, lock_wait)
    why = decide(kind, T, elapsed, outcome, t_complete, world)
    _finish(ctx, kind, why, T, retry, arrivals, lock_wait, buffered, outcome, elapsed, tag)


def _tcp_pair():
    return netutil.tcp_pair()


def _account(ctx, kind, T, retry, arrivals, world, outcome, lock_wait):
    ctx.count(f"kind:{kind}")
    if outcome == "timeout":
        ctx.count("timeouts_raised")
    elif outcome == "ok":
        ctx.count("returned_in_time")
    if T == 0:
        ctx.count("zero_timeout_cases")
    if any(t is not None and retry != math.inf and abs(t - retry) < 1e-9 for ev, t in world.select_calls):
        ctx.count("retry_interval_wakeups")
    if getattr(world, "spurious", 0):
        ctx.count("spurious_readiness")
    if sum(1 for t, d in arrivals if d is not None) >= 3:
        ctx.count("drip_3plus_partial_reads")


def _finish(ctx, kind, why, T, retry, arrivals, lock_wait, buffered, outcome, elapsed, tag):
    nontrivial = T not in (None,) and (sum(1 for t, d in arrivals if d is not None) >= 2 or lock_wait > 0)
    ctx.case(nontrivial, kind, T, retry, tuple((t, None if d is None else bytes(d)) for t, d in arrivals), lock_wait, buffered)
    if why:
        cat = "budget-exceeded" if "exceeds" in why else "zero-timeout-waits" if "zero timeout" in why else "false-timeout" if "TimeoutError although" in why else "late-return" if "returned although" in why else "other"
        ctx.violation(
            f"{cat}:{kind}",
            f"[{kind}] T={T} retry={retry} lock={lock_wait} arrivals={[(t, None if d is None else len(d)) for t, d in arrivals]} -> {outcome} after {elapsed}: {why}",
            {"kind": kind, "T": _j(T), "retry": "inf" if retry == math.inf else retry, "arrivals": [[t, None if d is None else d.hex()] for t, d in arrivals], "lock": lock_wait, "buffered": buffered, "tag": tag},
        )


def scenario_iter(ctx, rng: random.Random, T: float | None, retry: float, tag) -> None:
    """client.iter_received_packets(timeout=T) over several packets"""
    from easynetwork.clients.tcp import TCPNetworkClient

    npk = rng.randint(2, 4)
    packets = [f"pkt{i}".encode() + b"\n" for i in range(npk)]
    arrivals = []
    t = rng.choice([0.0, 0.25])
    completes = []
    for p in packets:
        half = len(p) // 2
        arrivals.append((t, p[:half]))
        t += rng.choice([0.0, 0.25, 0.5, 1.0])
        arrivals.append((t, p[half:]))
        completes.append(t)
        t += rng.choice([0.0, 0.25, 1.0, 2.0])
    clock = vselect.VirtualClock()
    c, s = _tcp_pair()
    s.setblocking(False)
    t0 = clock.now
    world = ReadWorld(clock, s, arrivals, t0)
    world.deliver_due()
    old_sel = base_selector.selectors
    got = []
    outcome = "ok"
    try:
        with vselect.virtual_time(clock):
            base_selector.selectors = _SelectorsShim(world)  # type: ignore[assignment]
            try:
                client = TCPNetworkClient(c, StreamProtocol(StringLineSerializer()), retry_interval=retry, max_recv_size=rng.choice([1, 1024]))
                Tn = T if T is not None and T != math.inf else 30.0  # an unbounded iterator would block for ever once the script is over
                with cpu_guard(20):
                    for v in client.iter_received_packets(timeout=Tn):
                        got.append(v)
            except BlockForever:
                outcome = "blocked-forever"
            except (Exception, HangDetected) as exc:  # noqa: BLE001
                outcome = f"exception {type(exc).__name__}: {exc}"
            finally:
                base_selector.selectors = old_sel
            elapsed = clock.now - t0
    finally:
        c.close()
        s.close()
    ctx.count("kind:client-iter")
    if sum(1 for _ in arrivals) >= 3:
        ctx.count("drip_3plus_partial_reads")
    if any(tt is not None and retry != math.inf and abs(tt - retry) < 1e-9 for ev, tt in world.select_calls):
        ctx.count("retry_interval_wakeups")
    why = None
    if outcome != "ok":
        why = outcome
    elif elapsed > Tn + EPS:
        why = f"the iterator waited {elapsed} in total, budget {Tn}"
    else:
        must = [i for i, tc in enumerate(completes) if tc < Tn - EPS]
        may = [i for i, tc in enumerate(completes) if tc <= Tn + EPS]
        exp_prefix = [f"pkt{i}" for i in range(npk)]
        if got != exp_prefix[: len(got)]:
            why = f"iterator yielded {got}, expected a prefix of {exp_prefix}"
        elif len(got) < len(must):
            why = f"iterator stopped after {len(got)} packets although {len(must)} complete before the budget {Tn} (complete at {completes})"
        elif len(got) > len(may):
            why = f"iterator yielded {len(got)} packets although only {len(may)} complete within the budget {Tn}"
    if Tn == 0:
        ctx.count("zero_timeout_cases")
    ctx.count("timeouts_raised" if len(got) < npk else "returned_in_time")
    _finish(ctx, "client-iter", why, Tn, retry, arrivals, 0.0, False, outcome, elapsed, tag)


def _hold_other_lock(ctx, rng, client, attr: str, clock, t0) -> None:
    """another thread holds the client's OTHER lock (the send lock during a receive, the receive lock during a send) for several
    seconds: the operation under test must neither wait for it nor charge it to its budget"""
    if rng.random() < 0.5:
        return
    other = VirtualLock(clock, t0 + rng.choice([3.0, 6.0, 30.0]))
    setattr(client, attr, _lock.ForkSafeLock(lambda: other))
    ctx.count("other_lock_held_meanwhile")



def scenario_udp(ctx, rng: random.Random, T: float | None, retry: float, tag) -> None:
    from easynetwork.clients.udp import UDPNetworkClient

    t_arr = rng.choice([0.0, 0.25, 1.0, 2.5])
    a, b = netutil.udp_pair()
    b.setblocking(False)
    arrivals = [(t_arr, b"datagram")]
    if rng.random() < 0.3:
        arrivals.insert(0, (max(0.0, t_arr - 0.25), None))
    clock = vselect.VirtualClock()
    t0 = clock.now
    world = ReadWorld(clock, b, arrivals, t0)
    world.deliver_due()
    held = rng.choice([None, None, 0.5, 2.0])
    outcome = "?"
    old_sel = base_selector.selectors
    try:
        with vselect.virtual_time(clock):
            base_selector.selectors = _SelectorsShim(world)  # type: ignore[assignment]
            try:
                client = UDPNetworkClient(a, DatagramProtocol(StringLineSerializer()), retry_interval=retry)
                vlock = VirtualLock(clock, None if held is None else t0 + held)
                client._UDPNetworkClient__receive_lock = _lock.ForkSafeLock(lambda: vlock)  # type: ignore[attr-defined]
                _hold_other_lock(ctx, rng, client, "_UDPNetworkClient__send_lock", clock, t0)
                if held:
                    ctx.count("lock_waits")
                try:
                    with cpu_guard(20):
                        v = client.recv_packet(timeout=T)
                    outcome = "ok" if v == "datagram" else f"wrong {v!r}"
                except TimeoutError:
                    outcome = "timeout"
                except BlockForever:
                    outcome = "blocked-forever"
                except (Exception, HangDetected) as exc:  # noqa: BLE001
                    outcome = f"exception {type(exc).__name__}: {exc}"
            finally:
                base_selector.selectors = old_sel
            elapsed = clock.now - t0
    finally:
        a.close()
        b.close()
    _account(ctx, "udp-client-recv", T, retry, arrivals, world, outcome, held or 0.0)
    why = decide("udp-client-recv", T, elapsed, outcome, max(t_arr, held or 0.0), world)
    _finish(ctx, "udp-client-recv", why, T, retry, arrivals, held or 0.0, False, outcome, elapsed, tag)


class _GatedSocket(faultsock.FaultySocket):
    """the kernel accepts bytes only at scripted virtual times: blocks = [(delay, nbytes)]; before the gate opens every
    send is EAGAIN, when it opens at most nbytes are accepted and the next block's delay starts"""

    def setup(self, clock, blocks):
        self.clock = clock
        self.blocks = list(blocks)
        self.open_at = clock.now + (self.blocks[0][0] if self.blocks else 0.0)

    def _gate(self, data: bytes) -> int:
        import errno as _e

        if self.blocks:
            if self.clock.now + 1e-9 < self.open_at:
                self._tick(False)
                raise BlockingIOError(_e.EAGAIN, "gated")
            _, n = self.blocks.pop(0)
            n = min(n, len(data))
            self.open_at = self.clock.now + (self.blocks[0][0] if self.blocks else 0.0)
        else:
            n = len(data)
        if n:
            socket.socket.send(self, data[:n])
        self._tick(n > 0)
        return n

    def send(self, data, flags=0):
        self.calls["send"] += 1
        return self._gate(bytes(memoryview(data)))

    def sendmsg(self, buffers, *a):
        self.calls["sendmsg"] += 1
        return self._gate(b"".join(bytes(memoryview(b)) for b in buffers))


class _SendWorld(vselect.World):
    def __init__(self, clock, sock):
        super().__init__(clock)
        self.sock = sock

    def on_select(self, fileno, event, timeout):
        wait = max(0.0, self.sock.open_at - self.clock.now)
        if timeout is None or wait <= timeout:
            self.clock.advance(wait)
            return True
        self.clock.advance(timeout)
        return False


def scenario_send(ctx, rng: random.Random, T: float | None, retry: float, tag) -> None:
    """endpoint.send_packet against a peer whose kernel accepts bytes at scripted virtual times"""
    payload = "x" * 40
    need = len(payload) + 1
    blocks = []
    acc = 0
    t_complete = 0.0
    while acc < need and len(blocks) < 6:
        d = rng.choice([0.0, 0.0, 0.25, 0.5, 1.0, 2.5])
        n = rng.choice([1, 5, 12, 41])
        blocks.append((d, n))
        t_complete += d
        acc += n
    if acc < need:
        pass  # after the script the kernel accepts everything immediately
    fs, peer = _GatedSocket.pair()
    peer.setblocking(False)
    clock = vselect.VirtualClock()
    fs.setup(clock, blocks)
    world = _SendWorld(clock, fs)
    t0 = clock.now
    outcome = "?"
    try:
        with vselect.virtual_time(clock):
            tr = SocketStreamTransport(fs, retry_interval=retry, selector_factory=vselect.selector_factory(world))
            ep = StreamEndpoint(tr, StreamProtocol(StringLineSerializer()), max_recv_size=1024)
            try:
                with cpu_guard(20):
                    ep.send_packet(payload, timeout=T)
                outcome = "ok"
            except TimeoutError:
                outcome = "timeout"
            except (Exception, HangDetected, faultsock.SpinDetected) as exc:  # noqa: BLE001
                outcome = f"exception {type(exc).__name__}: {exc}"
            elapsed = clock.now - t0
    finally:
        peer.close()
        fs.close()
    ctx.count("kind:endpoint-send")
    if outcome == "timeout":
        ctx.count("timeouts_raised")
    elif outcome == "ok":
        ctx.count("returned_in_time")
    if T == 0:
        ctx.count("zero_timeout_cases")
    if any(tt is not None and retry != math.inf and abs(tt - retry) < 1e-9 for ev, tt in world.select_calls):
        ctx.count("retry_interval_wakeups")
    why = decide("endpoint-send", T, elapsed, outcome, t_complete, world)
    ctx.case(T is not None and len(blocks) >= 2, "endpoint-send", T, retry, tuple(blocks))
    if why:
        cat = "budget-exceeded" if "exceeds" in why else "zero-timeout-waits" if "zero timeout" in why else "false-timeout" if "TimeoutError although" in why else "late-return" if "returned although" in why else "other"
        ctx.violation(f"{cat}:endpoint-send", f"[endpoint-send] T={T} retry={retry} blocks={blocks} -> {outcome} after {elapsed}: {why}", {"kind": "endpoint-send", "T": _j(T), "retry": "inf" if retry == math.inf else retry, "blocks": blocks, "tag": tag})


def scenario_client_send_lock(ctx, rng: random.Random, T: float | None, retry: float, tag) -> None:
    """TCPNetworkClient.send_packet(timeout=T) while another thread holds the send lock until a scripted virtual time, over a
    socket whose kernel buffer accepts bytes at scripted virtual times: lock wait + blocked writes share ONE budget"""
    from easynetwork.clients.tcp import TCPNetworkClient

    payload = "y" * 40
    need = len(payload) + 1
    held = rng.choice([0.25, 0.5, 1.0, 3.0])
    blocks = []
    acc = 0
    while acc < need and len(blocks) < 5:
        blocks.append((rng.choice([0.0, 0.25, 0.5, 1.0, 2.5]), rng.choice([5, 12, 41])))
        acc += blocks[-1][1]
    c, s_ = _tcp_pair()
    fs = _GatedSocket(c.family, c.type, c.proto, fileno=c.detach())
    s_.setblocking(False)
    clock = vselect.VirtualClock()
    world = _SendWorld(clock, fs)
    t0 = clock.now
    outcome = "?"
    old_sel = base_selector.selectors
    try:
        with vselect.virtual_time(clock):
            base_selector.selectors = _SelectorsShim(world)  # type: ignore[assignment]
            try:
                client = TCPNetworkClient(fs, StreamProtocol(StringLineSerializer()), retry_interval=retry)
                fs.setup(clock, blocks)
                vlock = VirtualLock(clock, t0 + held)
                client._TCPNetworkClient__send_lock = _lock.ForkSafeLock(lambda: vlock)  # type: ignore[attr-defined]
                _hold_other_lock(ctx, rng, client, "_TCPNetworkClient__receive_lock", clock, t0)
                ctx.count("lock_waits")
                try:
                    with cpu_guard(20):
                        client.send_packet(payload, timeout=T)
                    outcome = "ok"
                except TimeoutError:
                    outcome = "timeout"
                except (Exception, HangDetected, faultsock.SpinDetected) as exc:  # noqa: BLE001
                    outcome = f"exception {type(exc).__name__}: {exc}"
            finally:
                base_selector.selectors = old_sel
            elapsed = clock.now - t0
    finally:
        s_.close()
        try:
            fs.close()
        except OSError:
            pass
    # reference: the lock is free at `held`; the kernel accepts block i at max(now, open_i)
    t = held
    open_at = blocks[0][0]
    accepted = 0
    for i, (d, n) in enumerate(blocks):
        t = max(t, open_at)
        accepted += n
        if accepted >= need:
            break
        open_at = t + (blocks[i + 1][0] if i + 1 < len(blocks) else 0.0)
    t_complete = t
    ctx.count("kind:client-send-lock")
    if outcome == "timeout":
        ctx.count("timeouts_raised")
    elif outcome == "ok":
        ctx.count("returned_in_time")
    why = decide("client-send-lock", T, elapsed, outcome, t_complete, world)
    ctx.case(T is not None, "client-send-lock", T, retry, held, tuple(blocks))
    if why:
        cat = "budget-exceeded" if "exceeds" in why else "zero-timeout-waits" if "zero timeout" in why else "false-timeout" if "TimeoutError although" in why else "late-return" if "returned although" in why else "other"
        ctx.violation(f"{cat}:client-send-lock", f"[client-send-lock] T={T} retry={retry} lock held {held} blocks={blocks} -> {outcome} after {elapsed}: {why}", {"kind": "client-send-lock", "T": _j(T), "retry": "inf" if retry == math.inf else retry, "held": held, "blocks": blocks, "tag": tag})


def scenario_async_iter(ctx, rng: random.Random, T: float | None, tag) -> None:
    """AsyncClientRecvIterator: the sum over all __anext__ waits <= T (virtual loop; ElapsedTime reads the loop clock)"""
    from easynetwork.clients._iter import AsyncClientRecvIterator
    from easynetwork.lowlevel.api_async.backend._asyncio.backend import AsyncIOBackend
    from easynetwork.lowlevel.api_async.endpoints.stream import AsyncStreamEndpoint

    from vlib import memtransport, vloop

    npk = rng.randint(2, 4)
    script = []
    completes = []
    t = 0.0
    for i in range(npk):
        p = f"pkt{i}\n".encode()
        d1 = rng.choice([0.0, 0.25, 0.5, 1.0])
        d2 = rng.choice([0.0, 0.25, 1.0, 2.0])
        script.append((d1, p[:2]))
        script.append((d2, p[2:]))
        t += d1 + d2
        completes.append(t)
    Tn = 30.0 if T is None or T == math.inf else T
    got: list = []
    info: dict = {}

    class _FakeClient:
        def __init__(self, ep, backend):
            self.ep, self._b = ep, backend

        def backend(self):
            return self._b

        async def recv_packet(self):
            return await self.ep.recv_packet()

    async def main(loop):
        backend = AsyncIOBackend()
        tr = memtransport.MemStreamTransport(backend)
        ep = AsyncStreamEndpoint(tr, StreamProtocol(StringLineSerializer()), max_recv_size=1024)
        feed = asyncio.ensure_future(memtransport.feeder(tr.incoming, script))

        class _Clock:
            now = property(lambda self: loop.time())

        with vselect.virtual_time(_Clock()):  # type: ignore[arg-type]
            t0 = loop.time()
            it = AsyncClientRecvIterator(_FakeClient(ep, backend), Tn)  # type: ignore[arg-type]
            try:
                async for v in it:
                    got.append(v)
            except TimeoutError:
                info["timeout_error"] = True
            info["elapsed"] = loop.time() - t0
        feed.cancel()
        await ep.aclose()

    why = None
    try:
        vloop.run(main)
    except vloop.Quiescent as exc:
        why = f"deadlock: {exc}"
    ctx.count("kind:async-iter")
    elapsed = info.get("elapsed", -1.0)
    if why is None:
        exp_prefix = [f"pkt{i}" for i in range(npk)]
        must = [i for i, tc in enumerate(completes) if tc < Tn - EPS]
        may = [i for i, tc in enumerate(completes) if tc <= Tn + EPS]
        if elapsed > Tn + EPS:
            why = f"the asynchronous iterator waited {elapsed} in total, budget {Tn}"
        elif got != exp_prefix[: len(got)]:
            why = f"iterator yielded {got}"
        elif len(got) < len(must):
            why = f"iterator stopped after {len(got)} packets although {len(must)} complete before the budget {Tn} (complete at {completes})"
        elif len(got) > len(may):
            why = f"iterator yielded {len(got)} packets although only {len(may)} complete within the budget {Tn}"
    ctx.case(True, "async-iter", Tn, tuple(script))
    if why:
        ctx.violation("async-iter", f"[async-iter] T={Tn} script={script}: {why}", {"kind": "async-iter", "T": _j(Tn), "script": [[d, b.hex()] for d, b in script], "tag": tag})


TS = [None, 0, 0.25, 0.5, 1.0, 2.0, 5.0, math.inf]
RETRIES = [0.1, 1.0, math.inf]


def plan(tier: str, seed: int) -> list[dict]:
    iters = 200 if tier == "quick" else 20000
    return [{"seed": seed * 1000 + k, "iters": iters} for k in range(16)]


def run_shard(params: dict, ctx) -> None:
    rng = random.Random(params["seed"])
    kinds = ["transport-recv", "endpoint-recv", "client-recv-lock"]
    for it in range(params["iters"]):
        if ctx.should_stop(200):
            return
        T = rng.choice(TS)
        retry = rng.choice(RETRIES)
        tag = [params["seed"], it]
        for kind in kinds:
            if T is None and kind != "client-recv-lock":
                pass
            scenario_stream(ctx, kind, rng, T, retry, tag)
        scenario_iter(ctx, rng, T, retry, tag)
        scenario_udp(ctx, rng, T if T is not None else 10.0, retry, tag)
        scenario_send(ctx, rng, T, retry, tag)
        scenario_client_send_lock(ctx, rng, T, retry, tag)
        if it % 4 == 0:
            scenario_async_iter(ctx, rng, T, tag)
        if it == 0:
            ctx.sample({"kind": "endpoint-recv", "T": _j(T), "retry_interval": str(retry), "arrivals": "e.g. [(0.0, b'hel'), (0.25, None), (0.5, b'lo world...'), ...]"})


def replay(witness: dict, ctx) -> None:
    # scenarios are regenerated from the recorded tag (shard seed, iteration): re-run that shard prefix
    seed, it = witness["tag"][0], witness["tag"][1]
    run_shard({"seed": seed, "iters": it + 1}, ctx)
