"""C19 — connection racing returns one socket and leaks none.

Monitor: a BaseAsyncDNSResolver subclass whose connect_socket() follows a script per address (succeed after d, fail with an
errno after d, hang) drives the real staggered race on the virtual-time loop; every socket created during the call is a
tracking subclass (census), the process fd table is compared before/after, and the caller is cancelled in every loop iteration
(both slots) or through an enclosing timeout. Oracle: success => exactly one tracked socket is open, it is the returned one
and its address was scripted to succeed; failure or cancellation => no tracked socket is open and the failure is an exception
group carrying the attempts' OSErrors (or the cancellation propagates); the fd table is unchanged.
"""

from __future__ import annotations

import asyncio
import errno
import itertools
import math
import os
import random
import socket
from typing import Any

from easynetwork.lowlevel.api_async.backend._asyncio.backend import AsyncIOBackend
from easynetwork.lowlevel.api_async.backend._common import dns_resolver as _dr

from vlib import vloop

PROPERTY = "C19"
LEVEL = "fault_enumeration"
RULE = (
    "case = (address list of 1..5 entries mixing AF_INET/AF_INET6, per-address outcome in {ok@0, ok@0.25, ok@1, fail@0, fail@0.5, hang}, "
    "happy-eyeballs delay in {0, 0.25, inf}, local address list making bind succeed / fail, cancellation spec in {none, task.cancel at "
    "iteration k (before/after I/O) for every k of the uncancelled run, enclosing timeout}). Exhaustive over outcome vectors for <= 3 "
    "addresses x delays x all cancel points. non-trivial = >= 2 addresses and (two attempts in flight at once or a cancellation "
    "landed while an attempt was in flight); distinct = distinct (addresses, outcomes, delay, local, cancel spec)"
)
ASSUMPTIONS = [
    "connect attempts are scripted (no real network); sockets are real but never connected; the census is a socket.socket subclass substituted in the resolver module's namespace for the duration of the call",
    "fd table census (/proc/self/fd) is taken outside the lifetime of the event loop",
]
REQUIRED = [
    "success_runs",
    "all_failed_runs",
    "cancelled_runs",
    "two_winners_same_iteration",
    "late_winner_closed",
    "bind_failures",
    "mixed_families",
    "cancel_in_flight",
    "enclosing_timeout_runs",
    "client_closed_during_race",
    "client_waiter_cancelled_during_race",
    "real_connect_cases",
    "real_in_progress_connect_abandoned",
]
EXHAUSTIVE = {"quick": True, "thorough": True}
WATCHDOG = {"quick": 900, "thorough": 7200}

OUTCOMES = [("ok", 0.0), ("ok", 0.25), ("ok", 1.0), ("fail", 0.0), ("fail", 0.5), ("hang", 0.0)]
DELAYS = [0.0, 0.25, math.inf]


class Census:
    def __init__(self) -> None:
        self.created: list = []


def make_tracking(census: Census):
    class TrackingSocket(socket.socket):
        def __init__(self, *a, **kw):
            super().__init__(*a, **kw)
            census.created.append(self)

    return TrackingSocket


class _SockModShim:
    def __init__(self, cls) -> None:
        self.socket = cls

    def __getattr__(self, name):
        return getattr(socket, name)


class ScriptedResolver(_dr.BaseAsyncDNSResolver):
    def __init__(self, script: dict) -> None:
        self.script = script
        self.in_flight = 0
        self.max_in_flight = 0
        self.connected: list = []

    async def connect_socket(self, sock, address) -> None:
        kind, d = self.script[address[0]]
        self.in_flight += 1
        self.max_in_flight = max(self.max_in_flight, self.in_flight)
        try:
            if kind == "hang":
                await asyncio.get_running_loop().create_future()
            if d:
                await asyncio.sleep(d)
            else:
                await asyncio.sleep(0)
            if kind == "fail":
                raise OSError(errno.ECONNREFUSED, f"scripted refusal from {address[0]}")
            self.connected.append((sock, address[0]))
        finally:
            self.in_flight -= 1


def _fd_count() -> int:
    return len(os.listdir("/proc/self/fd"))


def addr_list(fams: list[int]) -> list:
    out = []
    for i, f in enumerate(fams):
        if f == 4:
            out.append((socket.AF_INET, socket.SOCK_STREAM, 6, "", (f"10.0.0.{i + 1}", 80)))
        else:
            out.append((socket.AF_INET6, socket.SOCK_STREAM, 6, "", (f"fd00::{i + 1}", 80, 0, 0)))
    return out


_SCOPE_CANCELS: list[int] = []
_patched = False


def _patch_scope_monitor() -> None:
    """harness-side monitor: remember in which loop iteration cancel scopes get cancelled (attribution of a lost external
    cancel to the known C13 mechanism 'external cancel coincident with a scope's own cancel')"""
    global _patched
    if _patched:
        return
    _patched = True
    from easynetwork.lowlevel.api_async.backend._asyncio import tasks as _tasks

    orig = _tasks.CancelScope.cancel

    def cancel(self):
        try:
            lp = asyncio.get_running_loop()
            _SCOPE_CANCELS.append(getattr(lp, "iteration", -1))
        except RuntimeError:
            pass
        return orig(self)

    _tasks.CancelScope.cancel = cancel  # type: ignore[method-assign]


def run_case(fams: list[int], outcomes: list, delay: float, local: str, spec: tuple | None) -> dict:
    _patch_scope_monitor()
    _SCOPE_CANCELS.clear()
    infos = addr_list(fams)
    script = {info[4][0]: oc for info, oc in zip(infos, outcomes)}
    census = Census()
    res: dict[str, Any] = {}
    fd0 = _fd_count()
    local_info = None
    if local == "ok":
        local_info = [(socket.AF_INET, socket.SOCK_STREAM, 6, "", ("127.0.0.1", 0)), (socket.AF_INET6, socket.SOCK_STREAM, 6, "", ("::1", 0, 0, 0))]
    elif local == "fail":
        local_info = [(socket.AF_INET, socket.SOCK_STREAM, 6, "", ("192.0.2.1", 0)), (socket.AF_INET6, socket.SOCK_STREAM, 6, "", ("2001:db8::1", 0, 0, 0))]
    elif local == "fail4":
        local_info = [(socket.AF_INET, socket.SOCK_STREAM, 6, "", ("192.0.2.1", 0)), (socket.AF_INET6, socket.SOCK_STREAM, 6, "", ("::1", 0, 0, 0))]
    returned: list = []

    async def main(loop):
        backend = AsyncIOBackend()
        resolver = ScriptedResolver(script)
        res["resolver"] = resolver
        old = _dr._socket
        _dr._socket = _SockModShim(make_tracking(census))  # type: ignore[assignment]
        try:
            async def call():
                res["it_start"] = loop.iteration
                try:
                    if spec is not None and spec[0] == "timeout":
                        with backend.timeout(spec[1]):
                            return await resolver._staggered_race_connection_impl(backend, remote_addrinfo=infos, local_addrinfo=local_info, happy_eyeballs_delay=delay)
                    return await resolver._staggered_race_connection_impl(backend, remote_addrinfo=infos, local_addrinfo=local_info, happy_eyeballs_delay=delay)
                finally:
                    res["it_end"] = loop.iteration

            task = asyncio.ensure_future(call())
            k0 = loop.iteration + 1
            if spec is not None and spec[0] == "task":
                def fire():
                    if not task.done():
                        res["in_flight_at_cancel"] = resolver.in_flight
                        res["fire_it"] = loop.iteration
                        task.cancel()

                (loop.before_io if spec[2] == "before" else loop.after_io)(k0 + spec[1], fire)
            try:
                sock = await asyncio.wait_for(asyncio.shield(task), 500)
                returned.append(sock)
                res["outcome"] = "ok"
            except asyncio.CancelledError:
                res["outcome"] = "cancelled"
            except TimeoutError:
                if task.done():
                    res["outcome"] = "timeout"  # raised by the enclosing backend.timeout() of the call itself
                else:
                    res["outcome"] = "hung"  # the harness watchdog (500 virtual seconds)
                    task.cancel()
                    await asyncio.gather(task, return_exceptions=True)
            except BaseExceptionGroup as eg:
                res["outcome"] = "failed"
                flat = []

                def walk(e):
                    if isinstance(e, BaseExceptionGroup):
                        for x in e.exceptions:
                            walk(x)
                    else:
                        flat.append(e)

                walk(eg)
                res["errors"] = [type(e).__name__ + ":" + str(getattr(e, "errno", "")) for e in flat]
                res["all_oserror"] = all(isinstance(e, OSError) for e in flat)
            except Exception as exc:  # noqa: BLE001
                res["outcome"] = f"raised:{type(exc).__name__}: {exc}"
            for _ in range(4):
                await asyncio.sleep(0)
            res["K"] = res.get("it_end", loop.iteration) - res.get("it_start", k0)
        finally:
            _dr._socket = old

    try:
        vloop.run(main)
    except vloop.Quiescent as exc:
        res["outcome"] = f"deadlock: {exc}"
    resolver = res.pop("resolver", None)
    open_socks = [s for s in census.created if s.fileno() != -1]
    res["created"] = len(census.created)
    res["open"] = len(open_socks)
    res["returned_is_open_one"] = bool(returned) and len(open_socks) == 1 and open_socks[0] is returned[0]
    if returned:
        ok_addrs = [a for s, a in (resolver.connected if resolver else []) if s is returned[0]]
        res["returned_addr_ok"] = bool(ok_addrs) and script[ok_addrs[0]][0] == "ok"
        res["n_connected"] = len(resolver.connected)
    res["max_in_flight"] = resolver.max_in_flight if resolver else 0
    for s in census.created:
        try:
            s.close()
        except OSError:
            pass
    census.created.clear()
    returned.clear()
    res["fd_delta"] = _fd_count() - fd0
    if "fire_it" in res:
        res["scope_cancel_near_fire"] = any(abs(i - res["fire_it"]) <= 1 for i in _SCOPE_CANCELS)
    return res


def run_client_case(outcomes: list, delay: float, action: str, k: int, slot: str) -> dict:
    """AsyncTCPNetworkClient((host, port)) over the same scripted race (IPv4 only, attempts scripted 'ok' really connect to a loopback
    listener). While wait_connected() is pending, at iteration k, either the client is closed from another task (aclose(), the client's
    way of cancelling its connect) or the waiting task is cancelled. Census before any further clean-up: unless wait_connected() had
    already returned the connected client, every socket created by the race is closed and wait_connected() did not return normally."""
    from easynetwork.clients.async_tcp import AsyncTCPNetworkClient
    from easynetwork.exceptions import ClientClosedError
    from easynetwork.protocol import StreamProtocol
    from easynetwork.serializers import StringLineSerializer

    _patch_scope_monitor()
    infos = addr_list([4] * len(outcomes))
    script = {info[4][0]: oc for info, oc in zip(infos, outcomes)}
    census = Census()
    res: dict[str, Any] = {}
    lst = socket.socket()
    lst.bind(("127.0.0.1", 0))
    lst.listen(16)
    lst.setblocking(False)
    accepted: list = []

    class ConnectingResolver(ScriptedResolver):
        async def connect_socket(self, sock, address) -> None:
            await super().connect_socket(sock, address)
            await asyncio.get_running_loop().sock_connect(sock, lst.getsockname())

        async def ensure_resolved(self, backend, host, port, family, type, proto=0, flags=0):
            return list(infos)

    async def main(loop):
        resolver = ConnectingResolver(script)

        # the real AsyncIOBackend.create_tcp_connection() runs (race, then wrap_stream_socket): only name resolution is scripted
        backend = AsyncIOBackend()
        backend._AsyncIOBackend__dns_resolver = resolver  # type: ignore[attr-defined]
        old = _dr._socket
        _dr._socket = _SockModShim(make_tracking(census))  # type: ignore[assignment]
        try:
            client = AsyncTCPNetworkClient(("racing.test", 80), StreamProtocol(StringLineSerializer()), backend, happy_eyeballs_delay=delay)

            async def waiter():
                res["it_start"] = loop.iteration
                try:
                    await client.wait_connected()
                    res["wc"] = "ok"
                    res["wc_it"] = loop.iteration
                except ClientClosedError:
                    res["wc"] = "ClientClosedError"
                except asyncio.CancelledError:
                    res["wc"] = "cancelled"
                    raise
                except BaseException as exc:  # noqa: BLE001
                    res["wc"] = f"raised:{type(exc).__name__}"
                finally:
                    res["it_end"] = loop.iteration

            task = asyncio.ensure_future(waiter())
            k0 = loop.iteration + 1
            closer: list = []

            def fire():
                if task.done():
                    return
                res["fire_it"] = loop.iteration
                res["in_flight_at_fire"] = resolver.in_flight
                if action == "aclose":
                    async def do_close():
                        await client.aclose()
                        res["aclose_returned_it"] = loop.iteration
                    closer.append(asyncio.ensure_future(do_close()))
                else:
                    task.cancel()

            if action != "none":
                (loop.before_io if slot == "before" else loop.after_io)(k0 + k, fire)
            done, pending = await asyncio.wait([task], timeout=500)
            if pending:
                res["wc"] = "hung"
                task.cancel()
            await asyncio.gather(task, *closer, return_exceptions=True)
            for _ in range(6):
                await asyncio.sleep(0)
            # census before any further clean-up
            res["open_before_cleanup"] = sum(1 for sck in census.created if sck.fileno() != -1)
            res["created"] = len(census.created)
            res["is_closing"] = client.is_closing()
            res["K"] = res.get("it_end", loop.iteration) - res.get("it_start", k0)
            await client.aclose()
            for _ in range(6):
                await asyncio.sleep(0)
            res["open_after_close"] = sum(1 for sck in census.created if sck.fileno() != -1)
        finally:
            _dr._socket = old

    try:
        vloop.run(main)
    except vloop.Quiescent as exc:
        res["wc"] = f"deadlock: {exc}"
    for sck in census.created:
        try:
            sck.close()
        except OSError:
            pass
    try:
        while True:
            accepted.append(lst.accept()[0])
    except OSError:
        pass
    for a in accepted:
        a.close()
    lst.close()
    res["scope_cancel_near_fire"] = "fire_it" in res and any(abs(i - res["fire_it"]) <= 1 for i in _SCOPE_CANCELS)
    return res


_REAL_ENV: dict = {}


def _real_env() -> dict:
    """one per worker process: a reachable loopback server, a black hole (listener whose accept queue is full: the kernel drops
    further SYNs, a connect() to it stays in progress) and a port nobody listens on (refused at once)"""
    if _REAL_ENV:
        return _REAL_ENV
    from vlib import netutil

    good = socket.socket()
    good.bind((netutil.rand_loopback(), 0))
    good.listen(128)
    hole = socket.socket()
    hole.bind((netutil.rand_loopback(), 0))
    hole.listen(0)
    fillers = []
    for _ in range(3):
        f = socket.socket()
        f.setblocking(False)
        f.connect_ex(hole.getsockname())
        fillers.append(f)
    closed = socket.socket()
    closed.bind((netutil.rand_loopback(), 0))
    refused = closed.getsockname()
    closed.close()
    _REAL_ENV.update(good=good, hole=hole, fillers=fillers, refused=refused)
    return _REAL_ENV


def run_real_case(shape: list[str], delay: float, action: str) -> dict:
    """the real AsyncIODNSResolver.connect_socket() (loop.sock_connect on real non-blocking sockets): only the address list is
    scripted. Addresses are 'ok' (reachable server), 'hang' (black hole: the connect stays in progress in the kernel) or 'refused'.
    After the call ended (winner, failure, enclosing timeout or task.cancel()) nothing of the abandoned attempts is left behind in
    the event loop: no pending task, no selector registration besides the returned socket; then a fresh connection to the reachable
    server, which reuses the descriptor numbers of the abandoned sockets, completes."""
    from easynetwork.lowlevel.api_async.backend._asyncio.dns_resolver import AsyncIODNSResolver

    env = _real_env()
    sockaddr = {"ok": env["good"].getsockname(), "hang": env["hole"].getsockname(), "refused": env["refused"]}
    infos = [(socket.AF_INET, socket.SOCK_STREAM, 6, "", sockaddr[k]) for k in shape]
    census = Census()
    res: dict[str, Any] = {}

    class Resolver(AsyncIODNSResolver):
        async def ensure_resolved(self, backend, host, port, family, type, proto=0, flags=0):
            return list(infos)

    async def main(loop):
        backend = AsyncIOBackend()
        backend._AsyncIOBackend__dns_resolver = Resolver()  # type: ignore[attr-defined]
        old = _dr._socket
        _dr._socket = _SockModShim(make_tracking(census))  # type: ignore[assignment]
        tasks_before = set(asyncio.all_tasks())
        fds_before = set(loop._selector.get_map())
        try:
            async def call():
                if action == "timeout":
                    with backend.move_on_after(0.45):
                        return await backend.create_tcp_connection("racing.test", 80, happy_eyeballs_delay=delay)
                    return None
                return await backend.create_tcp_connection("racing.test", 80, happy_eyeballs_delay=delay)

            task = asyncio.ensure_future(call())
            if action == "cancel":
                loop.call_later(0.3, task.cancel)
            loop.io_expected = lambda: not task.done() and "hang" not in shape
            done, pending = await asyncio.wait([task], timeout=300)
            loop.io_expected = None
            if pending:
                res["outcome"] = "hung"
                task.cancel()
                await asyncio.gather(task, return_exceptions=True)
                return
            stream = None
            if task.cancelled():
                res["outcome"] = "cancelled"
            elif task.exception() is not None:
                res["outcome"] = f"raised:{type(task.exception()).__name__}"
            else:
                stream = task.result()
                res["outcome"] = "ok" if stream is not None else "timed-out"
            for _ in range(6):
                await asyncio.sleep(0)
            res["created"] = len(census.created)
            res["open"] = sum(1 for sck in census.created if sck.fileno() != -1)
            left = [t for t in asyncio.all_tasks() if t not in tasks_before and t is not asyncio.current_task() and not t.done()]
            res["leftover_tasks"] = [repr(t.get_coro())[:120] for t in left]
            keep = set()
            if stream is not None:
                from easynetwork.lowlevel.socket import INETSocketAttribute

                keep.add(stream.extra(INETSocketAttribute.socket).fileno())
            res["stale_registrations"] = sorted(fd for fd in set(loop._selector.get_map()) - fds_before if fd not in keep)
            # the next connection of the process gets the descriptor numbers the abandoned attempts had
            nxt = asyncio.ensure_future(AsyncIOBackend().create_tcp_connection(*env["good"].getsockname()))  # numeric address: the stock resolver does not look anything up
            loop.io_expected = lambda: not nxt.done()
            done, pending = await asyncio.wait([nxt], timeout=30)
            loop.io_expected = None
            if pending:
                res["next"] = "never-completed"
                nxt.cancel()
                await asyncio.gather(nxt, return_exceptions=True)
            elif nxt.exception() is not None:
                res["next"] = f"raised:{type(nxt.exception()).__name__}"
            else:
                res["next"] = "ok"
                await nxt.result().aclose()
            if stream is not None:
                await stream.aclose()
            for t in left:
                t.cancel()
            await asyncio.gather(*left, return_exceptions=True)
        finally:
            _dr._socket = old

    try:
        vloop.run(main)
    except vloop.Quiescent as exc:
        res["outcome"] = f"deadlock: {exc}"
    for sck in census.created:
        try:
            sck.close()
        except OSError:
            pass
    try:
        env["good"].setblocking(False)
        while True:
            env["good"].accept()[0].close()
    except OSError:
        pass
    return res


def decide_real(shape: list[str], delay: float, action: str, res: dict) -> str | None:
    oc = res.get("outcome")
    if oc == "hung" or str(oc).startswith("deadlock"):
        return f"create_tcp_connection never returned ({oc})"
    winner_possible = "ok" in shape
    if action == "none":
        if winner_possible and oc != "ok" and not (delay == math.inf and "hang" in shape[: shape.index("ok")]):
            return f"a reachable address was in the list and the call ended '{oc}'"
        if not winner_possible and "hang" not in shape and not str(oc).startswith("raised"):
            return f"every address refuses and the call ended '{oc}'"
    want_open = 1 if oc == "ok" else 0
    if res.get("open") != want_open:
        return f"{res.get('open')} of the {res.get('created')} sockets created by the race are open after it ended '{oc}' (expected {want_open})"
    if res.get("leftover_tasks"):
        return f"the race ended '{oc}' and left pending tasks behind: {res['leftover_tasks']}"
    if res.get("stale_registrations"):
        return f"the race ended '{oc}' and left selector registrations for descriptors {res['stale_registrations']} it no longer owns"
    if res.get("next") != "ok":
        return f"after the race ended '{oc}', a fresh connection to a reachable server (reusing the abandoned descriptor numbers) ended '{res.get('next')}'"
    return None


def decide_client(outcomes, delay, action, res) -> str | None:
    wc = res.get("wc", "?")
    fired = "fire_it" in res
    if wc == "hung" or wc.startswith("deadlock"):
        if not fired and any(o[0] == "hang" for o in outcomes):
            return None  # nobody interrupted a connect that cannot finish
        if fired and action == "task-cancel" and res.get("scope_cancel_near_fire"):
            return "KNOWN-MECHANISM cancel lost: task.cancel() landed in the loop iteration in which a stagger scope cancelled itself (see C13)"
        return f"wait_connected() never returned ({wc}) although the connect was interrupted by {action}" if fired else f"wait_connected() never returned ({wc})"
    if fired and action == "aclose":
        # wait_connected() may legitimately have finished its work just before aclose() acted (connected, then closed); what may
        # not happen is a client that is still connected, or a race that is still running, once aclose() has returned
        if not res.get("is_closing"):
            return f"aclose() was called while the connect was in progress (iteration {res['fire_it']}) and returned, but the client is not closed afterwards (wait_connected() ended '{wc}', {res.get('open_before_cleanup')} socket(s) open)"
    if not (wc == "ok" and not (fired and action == "aclose")):
        if res.get("open_before_cleanup", 0) != 0:
            return f"wait_connected() ended '{wc}' ({action if fired else 'no interruption'}) but {res['open_before_cleanup']} of {res['created']} sockets created by the race are still open"
    elif res.get("open_before_cleanup", 0) != 1:
        return f"connected client but {res.get('open_before_cleanup')} sockets of {res.get('created')} are open (must be exactly the client's)"
    if res.get("open_after_close", 0) != 0:
        return f"{res['open_after_close']} sockets still open after the client was closed"
    return None


def decide(fams, outcomes, delay, local, spec, res) -> str | None:
    oc = res.get("outcome", "?")
    if oc.startswith("deadlock") or oc == "hung":
        # legitimate only if every attempt hangs for ever and nobody cancels
        if all(o[0] == "hang" for o in outcomes) and spec is None:
            return None
        if any(o[0] == "hang" for o in outcomes) and not any(o[0] == "ok" for o in outcomes) and spec is None:
            return None
        if delay == math.inf and any(o[0] == "hang" for o in outcomes) and spec is None:
            return None  # no stagger: attempts are sequential, an attempt that never completes blocks the following ones by design
        if local in ("fail", "fail4") and any(o[0] == "hang" for o in outcomes) and spec is None and not any(o[0] == "ok" and f == 6 for f, o in zip(fams, outcomes)):
            return None
        if spec is not None and spec[0] == "task" and "fire_it" in res:
            if res.get("scope_cancel_near_fire"):
                return "KNOWN-MECHANISM cancel lost: task.cancel() landed in the loop iteration in which a stagger scope (move_on_after(happy_eyeballs_delay)) cancelled itself; the request was swallowed (see C13) and the race kept waiting for attempts that never complete"
            return "the cancellation request was not honoured: the call never returned"
        return f"the call never returned ({oc})"
    if oc == "ok":
        if not res["returned_is_open_one"]:
            return f"success but {res['open']} sockets of {res['created']} created are open (the returned one must be the only one)"
        if not res.get("returned_addr_ok"):
            return "the returned socket was not connected by an attempt scripted to succeed"
    else:
        if res["open"] != 0:
            return f"outcome '{oc}' but {res['open']} of {res['created']} sockets created during the race are still open"
        if oc == "failed":
            if not res.get("all_oserror"):
                return f"the failure group carries non-OSError exceptions: {res.get('errors')}"
            ok_fams = {f for f, o in zip(fams, outcomes) if o[0] == "ok"}
            if ok_fams and local != "fail" and not (local == "fail4" and ok_fams == {4}):
                return "create_connection failed although an attempt was scripted to succeed"
        elif oc.startswith("raised"):
            return f"unexpected failure type: {oc}"
        elif oc == "cancelled" and (spec is None or spec[0] != "task"):
            return "CancelledError without a cancellation request"
        elif oc == "timeout" and (spec is None or spec[0] != "timeout"):
            return "TimeoutError without an enclosing timeout"
    if res["fd_delta"] != 0:
        return f"fd table changed by {res['fd_delta']} after the call (and after closing what it returned)"
    return None


def account(ctx, fams, outcomes, delay, local, spec, res) -> bool:
    oc = res.get("outcome")
    if oc == "ok":
        ctx.count("success_runs")
        if res.get("n_connected", 0) >= 2:
            ctx.count("late_winner_closed")
            if delay == 0 or len({o for o in outcomes if o[0] == "ok"}) < sum(1 for o in outcomes if o[0] == "ok"):
                ctx.count("two_winners_same_iteration")
    elif oc == "failed":
        ctx.count("all_failed_runs")
    elif oc in ("cancelled", "timeout"):
        ctx.count("cancelled_runs")
    if local in ("fail", "fail4"):
        ctx.count("bind_failures")
    if len(set(fams)) > 1:
        ctx.count("mixed_families")
    if res.get("in_flight_at_cancel", 0) > 0:
        ctx.count("cancel_in_flight")
    if spec is not None and spec[0] == "timeout":
        ctx.count("enclosing_timeout_runs")
    return len(fams) >= 2 and (res.get("max_in_flight", 0) >= 2 or res.get("in_flight_at_cancel", 0) > 0)


def plan(tier: str, seed: int) -> list[dict]:
    shards = []
    vectors = []
    for n in (1, 2, 3):
        for ocs in itertools.product(range(len(OUTCOMES)), repeat=n):
            vectors.append(list(ocs))
    per = len(vectors) // 15 + 1
    for i in range(0, len(vectors), per):
        shards.append({"seed": seed, "vectors": vectors[i : i + per], "random": 0, "tier": tier})
    if tier == "quick":
        shards.append({"seed": seed, "vectors": [], "random": 150})
    else:
        for j in range(16):
            shards.append({"seed": seed * 100 + j + 1, "vectors": [], "random": 2500})
    return shards


def run_shard(params: dict, ctx) -> None:
    rng = random.Random(params["seed"] * 7 + len(params["vectors"]))
    have6 = socket.has_ipv6
    for vec in params["vectors"]:
        outcomes = [OUTCOMES[i] for i in vec]
        fams = [(6 if (i % 2 == 0 and have6 and len(vec) > 1) else 4) for i in range(len(vec))]
        for delay in DELAYS:
            if ctx.should_stop(100):
                return
            base = run_case(fams, outcomes, delay, "none", None)
            _one(ctx, fams, outcomes, delay, "none", None, base)
            if base.get("outcome") in ("hung",) or str(base.get("outcome", "")).startswith("deadlock"):
                K = 6
            else:
                K = min(base.get("K", 4), 14)
            for k in range(0, K + 2):
                for slot in ("before", "after"):
                    spec = ("task", k, slot)
                    _one(ctx, fams, outcomes, delay, "none", spec, run_case(fams, outcomes, delay, "none", spec))
            spec = ("timeout", rng.choice([0, 0.25, 0.5, 1.0]))
            _one(ctx, fams, outcomes, delay, "none", spec, run_case(fams, outcomes, delay, "none", spec))
    # client level: AsyncTCPNetworkClient closed / cancelled while its connect is racing
    for vec in params["vectors"]:
        if len(vec) > 2 and params.get("tier") != "thorough":
            continue
        outcomes = [OUTCOMES[i] for i in vec]
        for delay in DELAYS:
            if ctx.should_stop(100):
                return
            base = run_client_case(outcomes, delay, "none", 0, "before")
            _one_client(ctx, outcomes, delay, "none", 0, "before", base)
            K = 8 if base.get("wc") in ("hung",) or str(base.get("wc", "")).startswith("deadlock") else min(base.get("K", 4), 14)
            for action in ("aclose", "task-cancel"):
                for k in range(0, K + 2):
                    for slot in ("before", "after"):
                        _one_client(ctx, outcomes, delay, action, k, slot, run_client_case(outcomes, delay, action, k, slot))
    # real connects (loop.sock_connect on loopback): abandoned in-progress attempts leave nothing behind in the loop
    if params["vectors"]:
        shapes = [list(x) for n in (1, 2, 3) for x in itertools.product(("ok", "hang", "refused"), repeat=n) if "hang" in x]
        mine = shapes[(params["vectors"][0][0] * 7 + len(params["vectors"])) % 5 :: 5] if params.get("tier") != "thorough" else shapes
        for shape in mine:
            for delay in (0.1, math.inf):
                for action in ("none", "timeout", "cancel"):
                    if action == "none" and ("ok" not in shape or (delay == math.inf and "hang" in shape[: shape.index("ok")])):
                        continue  # would wait for the kernel's connect timeout
                    r = run_real_case(shape, delay, action)
                    ctx.count("real_connect_cases")
                    if r.get("created", 0) > r.get("open", 0) + shape.count("refused") and r.get("outcome") in ("ok", "cancelled", "timed-out"):
                        ctx.count("real_in_progress_connect_abandoned")
                    ctx.case(True, "real", tuple(shape), delay, action)
                    why = decide_real(shape, delay, action, r)
                    if why:
                        cat = "leak" if "are open" in why else "hang" if "never returned" in why else "left-behind"
                        ctx.violation(f"real-{cat}:{action}", f"[real sockets] addresses={shape} delay={delay} {action}: {why}", {"real": True, "shape": shape, "delay": "inf" if delay == math.inf else delay, "action": action})
    for i in range(params["random"]):
        n = rng.randint(2, 5)
        outcomes = [rng.choice(OUTCOMES) for _ in range(n)]
        fams = [rng.choice([4, 6]) if have6 else 4 for _ in range(n)]
        delay = rng.choice(DELAYS)
        local = rng.choice(["none", "ok", "fail", "fail4"])
        spec = rng.choice([None, ("task", rng.randint(0, 12), rng.choice(["before", "after"])), ("timeout", rng.choice([0, 0.25, 1.0]))])
        _one(ctx, fams, outcomes, delay, local, spec, run_case(fams, outcomes, delay, local, spec))
    ctx.sample({"families": [4, 6, 4], "outcomes": [list(OUTCOMES[0]), list(OUTCOMES[3]), list(OUTCOMES[5])], "happy_eyeballs_delay": 0.25, "cancel": "task.cancel at iteration k=0..K+1, before/after I/O; enclosing timeout"})


def _one_client(ctx, outcomes, delay, action, k, slot, res) -> None:
    ctx.count("client_level_cases")
    fired = "fire_it" in res
    if fired and action == "aclose":
        ctx.count("client_closed_during_race")
    if fired and action == "task-cancel":
        ctx.count("client_waiter_cancelled_during_race")
    ctx.case(fired and res.get("in_flight_at_fire", 0) > 0, "client", tuple(outcomes), delay, action, k, slot)
    why = decide_client(outcomes, delay, action, res)
    if why:
        if why.startswith("KNOWN-MECHANISM"):
            key = "cancel-lost-coincident-with-stagger-scope-cancel"
        else:
            key = f"client-{'leak' if 'open' in why else 'hang' if 'never returned' in why else 'state'}:{action}"
        ctx.violation(key, f"[client] outcomes={outcomes} delay={delay} {action}@{k}/{slot}: {why}", {"client": True, "outcomes": [list(o) for o in outcomes], "delay": "inf" if delay == math.inf else delay, "action": action, "k": k, "slot": slot})


def _one(ctx, fams, outcomes, delay, local, spec, res) -> None:
    nontrivial = account(ctx, fams, outcomes, delay, local, spec, res)
    ctx.case(nontrivial, tuple(fams), tuple(outcomes), delay, local, spec)
    why = decide(fams, outcomes, delay, local, spec, res)
    if why:
        cat = "leak" if ("still open" in why or "are open" in why or "fd table" in why) else "cancel-lost-coincident-with-stagger-scope-cancel" if why.startswith("KNOWN-MECHANISM") else "hang" if "never returned" in why else "wrong-result"
        ctx.violation(cat if cat.startswith("cancel-lost") else f"{cat}:{res.get('outcome', '?').split(':')[0]}", f"fams={fams} outcomes={outcomes} delay={delay} local={local} spec={spec}: {why}", {"fams": fams, "outcomes": [list(o) for o in outcomes], "delay": "inf" if delay == math.inf else delay, "local": local, "spec": list(spec) if spec else None})


def replay(witness: dict, ctx) -> None:
    if witness.get("real"):
        d = math.inf if witness["delay"] == "inf" else witness["delay"]
        why = decide_real(witness["shape"], d, witness["action"], run_real_case(witness["shape"], d, witness["action"]))
        if why:
            ctx.violation("replayed:real", why, witness)
        return
    delay = math.inf if witness["delay"] == "inf" else witness["delay"]
    if witness.get("client"):
        outcomes = [tuple(o) for o in witness["outcomes"]]
        _one_client(ctx, outcomes, delay, witness["action"], witness["k"], witness["slot"], run_client_case(outcomes, delay, witness["action"], witness["k"], witness["slot"]))
        return
    outcomes = [tuple(o) for o in witness["outcomes"]]
    spec = tuple(witness["spec"]) if witness["spec"] else None
    res = run_case(witness["fams"], outcomes, delay, witness["local"], spec)
    why = decide(witness["fams"], outcomes, delay, witness["local"], spec, res)
    if why:
        ctx.violation("replayed", why, witness)
