"""C07 — receive buffering is bounded by the configured limit.

Monitor: held-bytes accounting. "held" = bytes retained after the last output + bytes fed since. After every read
that produced no output, held <= limit + read size + separator length must hold (otherwise a limit error is overdue);
after a limit error the retained bytes are <= read + separator; the buffer-filling path never allocates more than
the limit; a SAFE frame is never answered with a limit error.
"""

from __future__ import annotations

import random
from typing import Any

from easynetwork.exceptions import StreamProtocolParseError
from easynetwork.lowlevel._stream import BufferedStreamDataConsumer, StreamDataConsumer
from easynetwork.protocol import BufferedStreamProtocol, StreamProtocol
from easynetwork.serializers import JSONSerializer, StringLineSerializer
from easynetwork.serializers.abc import BufferedIncrementalPacketSerializer
from easynetwork.serializers.wrapper.base64 import Base64EncoderSerializer

from vlib import gen
from vlib.runner import HangDetected, cpu_guard

PROPERTY = "C07"
LEVEL = "exploration"
RULE = (
    "case = (framing spec, limit, payload length, read-size schedule, receive path, terminated or never terminated); "
    "exhaustive over limits x payload lengths 0..limit+sep+read x constant read sizes 1..limit+4 for small limits, plus random "
    "chunkings and random larger limits. non-trivial = payload length within limit+-(2*sep+2) or the stream is unterminated "
    "beyond the limit; distinct = distinct (spec, limit, payload length, schedule, path)"
)
ASSUMPTIONS = [
    "SAFE: separator framing payload+sep <= limit-sep-1; raw JSON document length <= limit-2; file-based: frame + one read <= limit "
    "(its limit is documented as 'maximum buffer size' and the buffer may hold one read of data following the frame)",
    "bound checked at read granularity: after a read of r bytes without output, held <= limit + r + separator",
    "compressor wrappers have no limit option and are out of scope of this property",
]
REQUIRED = [
    "server_receiver_cases",
    "endpoint_polling_cases",
    "endpoint_polling_expired_waits_between_pieces",
    "server_receiver_timeouts_between_pieces",
    "held_reached_limit_without_error",
    "limit_error_observed",
    "largest_safe_frame_accepted_bytewise",
    "safe_frames_accepted",
    "unterminated_streams",
    "buffered_alloc_checked",
    "spec:line-LF",
    "spec:line-CRLF",
    "spec:rawsep-3",
    "spec:json-lines",
    "spec:json-raw-object",
    "spec:json-raw-string",
    "spec:json-raw-number",
    "spec:lenfile",
    "spec:b64",
]
EXHAUSTIVE = {"quick": False, "thorough": False}
WATCHDOG = {"quick": 900, "thorough": 7200}
Z = b"Z"


class Spec:
    name = ""
    S = 0  # separator length (bytes that terminate a frame and are not payload)
    min_P = 0

    def ser(self, limit: int) -> Any: ...
    def frame(self, P: int) -> bytes | None: ...  # complete frame with payload length P
    def expect(self, P: int) -> Any: ...
    def endless(self, n: int) -> bytes: ...  # n bytes of a frame that never terminates
    resync = True  # a terminator exists, so delivery can resume after a rejected frame

    def safe(self, P: int, L: int, rmax: int = 0) -> bool:
        return P + self.S <= L - self.S - 1

    def sentinel(self) -> tuple[bytes, Any]: ...
    def min_limit(self) -> int:
        return len(self.sentinel()[0]) + self.S + 1


class LineSpec(Spec):
    def __init__(self, nl: str) -> None:
        self.nl = nl
        self.sep = {"LF": b"\n", "CRLF": b"\r\n"}[nl]
        self.S = len(self.sep)
        self.name = f"line-{nl}"

    def ser(self, limit):
        return StringLineSerializer(self.nl, limit=limit)

    def frame(self, P):
        return Z * P + self.sep

    def expect(self, P):
        return "Z" * P

    def endless(self, n):
        return Z * n

    def sentinel(self):
        return b"ok" + self.sep, "ok"


class RawSepSpec(Spec):
    def __init__(self, sep: bytes) -> None:
        self.sep = sep
        self.S = len(sep)
        self.name = f"rawsep-{len(sep)}" if sep == b"|#|" else f"rawsep-{sep.decode()}"

    def ser(self, limit):
        return gen.RawSep(self.sep, limit=limit)

    def frame(self, P):
        return Z * P + self.sep

    def expect(self, P):
        return Z * P

    def endless(self, n):
        return Z * n

    def sentinel(self):
        return b"ok" + self.sep, b"ok"


class B64Spec(Spec):
    name = "b64"
    S = 2
    min_P = 4

    def ser(self, limit):
        return Base64EncoderSerializer(JSONSerializer(), separator=b"\r\n", limit=limit)

    def frame(self, P):
        # P base64 characters that decode to a JSON string: '"' + x*k + '"' with len 3k' ... use digits: base64 of b'1'*n
        import base64

        if P % 4 != 0 or P < 4:
            return None
        raw = b'"' + b"1" * (P // 4 * 3 - 2) + b'"'
        return base64.urlsafe_b64encode(raw) + b"\r\n"

    def expect(self, P):
        return "1" * (P // 4 * 3 - 2)

    def endless(self, n):
        return b"MTEx" * (n // 4 + 1)

    def sentinel(self):
        import base64

        return base64.urlsafe_b64encode(b"7") + b"\r\n", 7

    def min_limit(self):
        return 12


class JsonLinesSpec(Spec):
    name = "json-lines"
    S = 1
    min_P = 2

    def ser(self, limit):
        return JSONSerializer(limit=limit)

    def frame(self, P):
        if P < 2:
            return None
        return b'"' + Z * (P - 2) + b'"\n'

    def expect(self, P):
        return "Z" * (P - 2)

    def endless(self, n):
        return b'"' + Z * (n - 1)

    def sentinel(self):
        return b"7\n", 7


class JsonRawSpec(Spec):
    S = 0

    def __init__(self, kind: str) -> None:
        self.kind = kind
        self.name = f"json-raw-{kind}"
        self.min_P = {"object": 8, "string": 2, "number": 1, "array": 2}[kind]
        self.S = 1 if kind == "number" else 0

    def ser(self, limit):
        return JSONSerializer(use_lines=False, limit=limit)

    def frame(self, P):
        if P < self.min_P:
            return None
        if self.kind == "object":
            return b'{"k":"' + Z * (P - 8) + b'"}'
        if self.kind == "string":
            return b'"' + Z * (P - 2) + b'"'
        if self.kind == "array":
            return b"[" * (P // 2) + (b"1" if P % 2 else b"") + b"]" * (P // 2)
        return b"1" * P + b"\n"

    def expect(self, P):
        if self.kind == "object":
            return {"k": "Z" * (P - 8)}
        if self.kind == "string":
            return "Z" * (P - 2)
        if self.kind == "array":
            v: Any = 1 if P % 2 else None
            first = True
            for _ in range(P // 2):
                v = [v] if not (first and v is None) else []
                first = False
            return v
        return int("1" * P)

    def endless(self, n):
        if self.kind == "object":
            return b'{"k":"' + Z * n
        if self.kind == "string":
            return b'"' + Z * n
        if self.kind == "array":
            return b"[" * n
        return b"1" * n

    resync = False

    def safe(self, P, L, rmax=0):
        return P + self.S <= L - 2

    def sentinel(self):
        return b'{"ok":1}', {"ok": 1}

    def min_limit(self):
        return 10


class LenFileSpec(Spec):
    name = "lenfile"
    resync = False
    S = 2  # header bytes

    def ser(self, limit):
        return gen.LenPrefixedFile(limit=limit)

    def frame(self, P):
        return P.to_bytes(2, "big") + Z * P

    def expect(self, P):
        return "Z" * P

    def endless(self, n):
        return (65535).to_bytes(2, "big") + Z * n

    def safe(self, P, L, rmax=0):
        # "Maximum buffer size": the limit applies to the accumulated buffer, which may legitimately contain up to one
        # read of data following the frame -> a frame is safely under the limit only if frame + one read fits
        return 2 + P + rmax <= L

    def sentinel(self):
        return b"\x00\x02ok", "ok"

    def min_limit(self):
        return 6


def specs() -> list[Spec]:
    return [
        LineSpec("LF"),
        LineSpec("CRLF"),
        RawSepSpec(b"|#|"),
        RawSepSpec(b"aab"),
        B64Spec(),
        JsonLinesSpec(),
        JsonRawSpec("object"),
        JsonRawSpec("string"),
        JsonRawSpec("number"),
        JsonRawSpec("array"),
        LenFileSpec(),
    ]


def spec_by_name(name: str) -> Spec:
    for s in specs():
        if s.name == name:
            return s
    raise KeyError(name)


def _priv(obj: Any, name: str, default: Any = None) -> Any:
    return getattr(obj, f"_BufferedStreamDataConsumer__{name}", default)


def run_case(ctx, spec: Spec, L: int, P: int | None, reads: list[int], path: str, hint: int, endless_len: int = 0) -> str | None:
    """returns a violation description or None. P=None -> unterminated stream of endless_len bytes."""
    ser = spec.ser(L)
    if P is None:
        stream = spec.endless(endless_len)
        expected_first = None
    else:
        fr = spec.frame(P)
        if fr is None:
            return None
        sent, sent_val = spec.sentinel()
        stream = fr + sent
        expected_first = spec.expect(P)
    S = spec.S
    outputs: list = []
    retained = 0
    fed_since = 0
    pos = 0
    i = 0
    max_held_no_error = 0
    if path == "copy":
        consumer: Any = StreamDataConsumer(StreamProtocol(ser))
    else:
        consumer = BufferedStreamDataConsumer(BufferedStreamProtocol(ser), hint)
    why = None
    while pos < len(stream) and why is None:
        r = reads[i % len(reads)]
        i += 1
        if path == "copy":
            chunk = stream[pos : pos + r]
            n = len(chunk)
        else:
            with memoryview(consumer.get_write_buffer()) as view:
                n = min(view.nbytes, r, len(stream) - pos)
                view[:n] = stream[pos : pos + n]
            bs = consumer.buffer_size
            ctx.count("buffered_alloc_checked")
            cap = min(hint, L) if spec.name == "lenfile" else L
            if bs > cap:
                return f"buffer-filling path allocated {bs} bytes, cap is {cap}"
        pos += n
        fed_since += n
        produced = False
        first = True
        for _ in range(len(stream) + 10):
            try:
                if path == "copy":
                    pkt = consumer.next(chunk if first else None)
                else:
                    pkt = consumer.next(n if first else None)
            except StopIteration:
                break
            except StreamProtocolParseError as exc:
                is_limit = type(exc.error).__name__ == "LimitOverrunError"
                outputs.append(("E", "limit" if is_limit else "other"))
                produced = True
                retained = len(memoryview(exc.remaining_data).tobytes()) if path == "copy" else _priv(consumer, "already_written", 0)
                fed_since = 0
                if is_limit:
                    ctx.count("limit_error_observed")
                    if retained > n + S:
                        why = f"after a limit error {retained} bytes are retained (read {n}, separator {S})"
            else:
                outputs.append(("P", pkt))
                produced = True
                retained = len(consumer.get_buffer()) if path == "copy" else _priv(consumer, "already_written", 0)
                fed_since = 0
            finally:
                first = False
        else:
            return "receive loop did not terminate"
        held = retained + fed_since
        if not produced:
            max_held_no_error = max(max_held_no_error, held)
            if held > L + n + S:
                why = f"holding {held} bytes without an error after a read of {n} (limit {L}, separator {S}): bound {L + n + S} exceeded"
        elif held > L + n + S:
            why = f"retaining {held} bytes after outputs (limit {L}, read {n}, separator {S})"
    if why:
        return why
    if max_held_no_error >= L:
        ctx.count("held_reached_limit_without_error")
    ctx.peak("max_held_over_limit_plus_sep", max(0, max_held_no_error - L - S + 1000) if False else 0)
    if P is None:
        ctx.count("unterminated_streams")
        if endless_len > L + max(reads) + S + 2 and not any(o == ("E", "limit") for o in outputs):
            return f"{endless_len} unterminated bytes fed with limit {L} and no limit error"
        return None
    if spec.safe(P, L, max(reads)):
        exp = [("P", expected_first), ("P", sent_val)]
        if repr(outputs) != repr(exp):
            if any(o == ("E", "limit") for o in outputs):
                return f"SAFE frame (payload {P}, sep {S}, limit {L}) rejected with a limit error: {outputs!r}"
            return f"SAFE frame not delivered intact: {outputs!r} expected {exp!r}"
        ctx.count("safe_frames_accepted")
        if all(x == 1 for x in reads) and not spec.safe(P + 1, L, 1):
            ctx.count("largest_safe_frame_accepted_bytewise")
    elif spec.resync:
        # BAND/OVER with a terminator: the sentinel must still come out intact at the end
        if not outputs or repr(outputs[-1]) != repr(("P", sent_val)):
            return f"frame after a {'rejected' if any(o[0]=='E' for o in outputs) else 'big'} frame not delivered intact: {outputs[-3:]!r}"
    return None


def _do(ctx, spec: Spec, L: int, P: int | None, reads: list[int], path: str, hint: int, endless_len: int = 0, tag: Any = None) -> None:
    near = P is None or abs(P + spec.S - L) <= 2 * spec.S + 2
    ctx.case(near, spec.name, L, P, tuple(reads), path, endless_len)
    try:
        with cpu_guard(20):
            why = run_case(ctx, spec, L, P, reads, path, hint, endless_len)
    except (Exception, HangDetected) as exc:  # noqa: BLE001
        why = f"exception {type(exc).__name__}: {exc}"
    if why:
        kind = "bound" if ("holding" in why or "retain" in why or "allocated" in why or "no limit error" in why) else "safe-rejected" if "SAFE" in why else "other"
        ctx.violation(
            f"{kind}:{path}:{spec.name}",
            f"{spec.name} limit {L} payload {P} reads {reads[:6]} [{path}]: {why}",
            {"spec": spec.name, "limit": L, "P": P, "reads": reads, "path": path, "hint": hint, "endless_len": endless_len, "tag": tag},
        )


def server_receiver_case(ctx, rng: random.Random) -> str | None:
    """the bound as the stream server's request receiver applies it: a handler that waits with a timeout and carries on after
    TimeoutError, a peer that drips an endless unterminated line with pauses shorter and longer than that timeout. The limit error
    must reach the handler before more than limit + one read + separator unterminated bytes were received"""
    import asyncio

    from easynetwork.exceptions import StreamProtocolParseError
    from easynetwork.lowlevel.api_async.backend._asyncio.backend import AsyncIOBackend
    from easynetwork.lowlevel.api_async.servers.stream import AsyncStreamServer
    from easynetwork.protocol import BufferedStreamProtocol, StreamProtocol

    from vlib import memtransport, vloop

    L = rng.choice([32, 64, 100, 255])
    max_recv = rng.choice([8, 16, 64])
    buffered = rng.random() < 0.5
    T = rng.choice([0.25, 0.5])
    piece = rng.choice([5, 8, 20])
    total = 4 * L + 4 * max_recv
    script = []
    fed = 0
    while fed < total:
        script.append((rng.choice([0, 0.1, 2 * T, 3 * T]), b"u" * piece))  # gaps below and well above the handler's timeout
        fed += piece
    st = {"limit_at": None, "timeouts": 0, "fed": 0, "other": None}

    async def main(loop):
        backend = AsyncIOBackend()
        listener = memtransport.MemListener(backend)
        ser = StringLineSerializer(limit=L)
        server = AsyncStreamServer(listener, BufferedStreamProtocol(ser) if buffered else StreamProtocol(ser), max_recv_size=max_recv)
        m = memtransport.MemStreamTransport(backend)
        done = asyncio.Event()

        async def handler(client):
            try:
                while True:
                    try:
                        yield T
                    except TimeoutError:
                        st["timeouts"] += 1
                    except StreamProtocolParseError as exc:
                        if "LimitOverrunError" in type(exc.error).__name__:
                            st["limit_at"] = sum(e[1] for e in m.events if e[0] == "recv")  # bytes the server had taken from the transport
                            return
                        st["other"] = repr(exc)
                        return
            finally:
                done.set()

        serve = asyncio.ensure_future(server.serve(handler))
        listener.connect(m)
        feed = asyncio.ensure_future(memtransport.feeder(m.incoming, script))
        await asyncio.wait([asyncio.ensure_future(done.wait()), feed], return_when=asyncio.FIRST_COMPLETED)
        for _ in range(10):
            await asyncio.sleep(0.1)
        st["fed"] = sum(e[1] for e in m.events if e[0] == "recv")
        feed.cancel()
        serve.cancel()
        await asyncio.gather(feed, serve, return_exceptions=True)
        await server.aclose()

    try:
        vloop.run(main)
    except vloop.Quiescent as exc:
        return f"deadlock: {exc}"
    ctx.count("server_receiver_cases")
    if st["timeouts"]:
        ctx.count("server_receiver_timeouts_between_pieces", st["timeouts"])
    bound = L + max_recv + 2
    where = f"server request receiver ({'buffered' if buffered else 'copy'} path, limit {L}, max_recv_size {max_recv}, handler timeout {T}, pieces of {piece} bytes, {st['timeouts']} TimeoutErrors in between)"
    if st["other"]:
        return f"{where}: unexpected parse error {st['other']}"
    if st["limit_at"] is None:
        return f"{where}: {st['fed']} unterminated bytes were received and no limit error reached the handler (bound {bound})"
    if st["limit_at"] > bound:
        return f"{where}: the limit error came after {st['limit_at']} unterminated bytes (bound {bound})"
    return None


def endpoint_polling_case(ctx, rng: random.Random) -> str | None:
    """the bound as a client that polls applies it: recv_packet() of the asynchronous endpoint under a deadline (move_on_after /
    timeout scope / task cancellation), repeated after every expiry, while the peer drips an endless unterminated line with pauses
    shorter and longer than the deadline. An interrupted wait must not reset the accounting: the limit error is raised before more
    than limit + one read + separator unterminated bytes were taken from the transport"""
    import asyncio

    from easynetwork.exceptions import StreamProtocolParseError
    from easynetwork.lowlevel.api_async.backend._asyncio.backend import AsyncIOBackend
    from easynetwork.lowlevel.api_async.endpoints.stream import AsyncStreamEndpoint
    from easynetwork.protocol import BufferedStreamProtocol, StreamProtocol

    from vlib import memtransport, vloop

    L = rng.choice([32, 64, 100, 255])
    max_recv = rng.choice([8, 16, 64])
    buffered = rng.random() < 0.5
    T = rng.choice([0.25, 0.5])
    piece = rng.choice([5, 8, 20])
    how = rng.choice(["move_on_after", "timeout", "task-cancel"])
    total = 4 * L + 4 * max_recv
    script = []
    fed = 0
    while fed < total:
        script.append((rng.choice([0, 0.1, 2 * T, 3 * T]), b"u" * piece))
        fed += piece
    st = {"limit_at": None, "timeouts": 0, "fed": 0, "other": None}

    async def main(loop):
        backend = AsyncIOBackend()
        ser = StringLineSerializer(limit=L)
        m = memtransport.MemStreamTransport(backend)
        ep = AsyncStreamEndpoint(m, BufferedStreamProtocol(ser) if buffered else StreamProtocol(ser), max_recv_size=max_recv)
        feed = asyncio.ensure_future(memtransport.feeder(m.incoming, script))

        def taken() -> int:
            return sum(e[1] for e in m.events if e[0] == "recv")

        for _ in range(10 * len(script)):
            if feed.done() and taken() >= fed:
                break
            try:
                if how == "move_on_after":
                    with backend.move_on_after(T) as scope:
                        await ep.recv_packet()
                    if scope.cancelled_caught():
                        st["timeouts"] += 1
                        continue
                elif how == "timeout":
                    try:
                        with backend.timeout(T):
                            await ep.recv_packet()
                    except TimeoutError:
                        st["timeouts"] += 1
                        continue
                else:
                    t = asyncio.ensure_future(ep.recv_packet())
                    done, _p = await asyncio.wait([t], timeout=T)
                    if not done:
                        t.cancel()
                        await asyncio.gather(t, return_exceptions=True)
                        if t.cancelled():
                            st["timeouts"] += 1
                            continue
                    await t
                st["other"] = "a packet was returned although no separator was ever sent"
                break
            except StreamProtocolParseError as exc:
                if "LimitOverrunError" in type(exc.error).__name__:
                    st["limit_at"] = taken()
                else:
                    st["other"] = repr(exc)
                break
        st["fed"] = taken()
        feed.cancel()
        await asyncio.gather(feed, return_exceptions=True)
        await ep.aclose()

    try:
        vloop.run(main)
    except vloop.Quiescent as exc:
        return f"deadlock: {exc}"
    ctx.count("endpoint_polling_cases")
    if st["timeouts"]:
        ctx.count("endpoint_polling_expired_waits_between_pieces", st["timeouts"])
    bound = L + max_recv + 2
    where = f"asynchronous endpoint polled with {how}({T}) ({'buffered' if buffered else 'copy'} path, limit {L}, max_recv_size {max_recv}, pieces of {piece} bytes, {st['timeouts']} expired waits in between)"
    if st["other"]:
        return f"{where}: {st['other']}"
    if st["limit_at"] is None:
        return f"{where}: {st['fed']} unterminated bytes were received and no limit error was raised (bound {bound})"
    if st["limit_at"] > bound:
        return f"{where}: the limit error came after {st['limit_at']} unterminated bytes (bound {bound})"
    return None


def plan(tier: str, seed: int) -> list[dict]:
    names = [s.name for s in specs()]
    shards = []
    limits = list(range(4, 17)) + [23, 40] if tier == "quick" else list(range(4, 41))
    # one shard per (spec, slice of limits)
    k = 0
    for name in names:
        for part in range(2 if tier == "quick" else 4):
            shards.append({"seed": seed * 1000 + k, "spec": name, "limits": limits[part :: (2 if tier == "quick" else 4)], "random_chunkings": 6 if tier == "quick" else 60, "random_big": 10 if tier == "quick" else 200})
            k += 1
    return shards


def run_shard(params: dict, ctx) -> None:
    rng = random.Random(params["seed"])
    spec = spec_by_name(params["spec"])
    ctx.count(f"spec:{spec.name}" if not spec.name.startswith("rawsep") else "spec:rawsep-3")
    for L in params["limits"]:
        if L < spec.min_limit():
            continue
        if ctx.should_stop(300):
            return
        for path in ("copy", "buffered"):
            if path == "buffered" and not isinstance(spec.ser(L), BufferedIncrementalPacketSerializer):
                continue
            maxr = L + 4
            for P in range(spec.min_P, L + spec.S + maxr + 1):
                rs = range(1, maxr + 1) if P <= L + 2 * spec.S + 3 else (1, 2, 3, L - 1, L, L + 1, maxr)
                for r in rs:
                    if r < 1:
                        continue
                    _do(ctx, spec, L, P, [r], path, rng.choice([1, 3, 16, 1024]), tag="exh")
                for _ in range(params["random_chunkings"]):
                    reads = [rng.randint(1, maxr) for _ in range(rng.randint(2, 6))]
                    _do(ctx, spec, L, P, reads, path, rng.choice(gen.HINTS), tag="rnd")
            for r in list(range(1, maxr + 1)):
                _do(ctx, spec, L, None, [r], path, 16, endless_len=3 * L + 3 * r + 7, tag="endless")
    # larger limits, random
    for _ in range(params["random_big"]):
        L = rng.choice([64, 100, 255, 1024, 4096, 65536])
        if spec.name == "lenfile" and L > 4096:
            L = 4096  # the harness format has a 2-byte length header
        for path in ("copy", "buffered"):
            if path == "buffered" and not isinstance(spec.ser(L), BufferedIncrementalPacketSerializer):
                continue
            P = max(spec.min_P, L + rng.randint(-2 * spec.S - 3, 2 * spec.S + 3))
            if spec.name == "json-raw-number":
                P = min(P, 4000)  # int() of longer literals is refused by the interpreter (not a size matter)
            if spec.name == "json-raw-array":
                P = min(P, 800)  # deeper nesting is refused by the decoder (not a size matter)
            reads = [rng.choice([1, 7, L // 2, L - 1, L, L + 1, 2 * L]) or 1 for _ in range(3)]
            if L > 5000:
                reads = [max(r, 512) for r in reads]
            _do(ctx, spec, L, P, reads, path, rng.choice(gen.HINTS), tag="big")
            _do(ctx, spec, L, None, [max(1, reads[0])], path, 64, endless_len=2 * L + 3 * max(reads) + 50, tag="big-endless")
    for i in range(6 if params["random_big"] <= 20 else 60):
        why = server_receiver_case(ctx, rng)
        ctx.case(True, "server-receiver", params["seed"], i)
        if why:
            ctx.violation("unbounded:server-receiver", why, {"spec": "server-receiver", "seed": params["seed"], "i": i})
        why = endpoint_polling_case(ctx, rng)
        ctx.case(True, "endpoint-polling", params["seed"], i)
        if why:
            ctx.violation("unbounded:endpoint-polling", why, {"spec": "server-receiver", "seed": params["seed"], "i": i})
    ctx.sample({"spec": spec.name, "limit": params["limits"][0], "payload_lengths": "0..limit+sep+read", "reads": "1..limit+4", "paths": ["copy", "buffered"]})


def replay(witness: dict, ctx) -> None:
    if witness.get("spec") == "server-receiver":
        return  # regenerated from the shard's PRNG stream: re-run the check with the same seed
    spec = spec_by_name(witness["spec"])
    _do(ctx, spec, witness["limit"], witness["P"], witness["reads"], witness["path"], witness["hint"], witness.get("endless_len", 0), tag="replay")
