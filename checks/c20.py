"""C20 — sending applies backpressure and never hangs on a dead connection.

Monitor (real sockets): loopback TCP with 4 KiB socket buffers and a peer that does not read. Several tasks send payloads far
larger than the kernel can hold through send_all / send_all_from_iterable / endpoint.send_packet / client.send_packet. A
wrapper records transport.get_write_buffer_size() at the moment each send returns. Then the peer reads everything / resets /
closes / stays silent while one sender is cancelled. Oracle: a send that returns normally returns with an empty user-space
write buffer; no send completes while the peer has read (much) less than what completed sends claim to have handed over;
parked senders all complete when the peer reads, all fail with a connection error when the connection is lost, and cancelling
one does not strand the others.
Monitor (model): WriteFlowControl driven by random pause/resume/connection_lost/close/drain/cancel sequences against a 15-line
reference model; every drain's state must equal the model's.
"""

from __future__ import annotations

import asyncio
import errno
import random
import socket
import struct
from typing import Any

from easynetwork.lowlevel.api_async.backend._asyncio._flow_control import WriteFlowControl
from easynetwork.lowlevel.api_async.backend._asyncio.backend import AsyncIOBackend
from easynetwork.lowlevel.api_async.endpoints.stream import AsyncStreamEndpoint
from easynetwork.protocol import StreamProtocol
from easynetwork.serializers import StringLineSerializer

from vlib import netutil  # noqa: E402
from vlib import tlspeer, vloop

PROPERTY = "C20"
LEVEL = "exploration"
RULE = (
    "case (real sockets) = (send API in {send_all, send_all_from_iterable, endpoint.send_packet, client.send_packet}, 1..5 concurrent "
    "senders, payload 300 KiB..1 MiB each, peer behaviour in {reads everything after a pause, resets, closes, silent + one sender "
    "cancelled then reads}); case (datagram) = UDP endpoint send under a paused protocol; case (model) = random event sequence of "
    "length <= 14 over {pause_writing, resume_writing, connection_lost(exc|None), transport closing flip, drain start, cancel drain i}. "
    "non-trivial = at least one sender was actually suspended (real part) or >= 2 waiters were parked at once (model); distinct = "
    "distinct scenario parameters / event sequences"
)
ASSUMPTIONS = [
    "loopback TCP with SO_SNDBUF/SO_RCVBUF 4096; kernel buffering bound measured at run time (bytes the peer can read after the senders were killed)",
    "CPython 3.12.1 asyncio selector transports",
    "UDP: a peer that stops reading does not back-pressure the sender; the clause is checked as 'user-space queue is empty / below the high-water mark when send returns' with a scripted paused protocol",
]
REQUIRED = [
    "api:send_all",
    "api:send_all_from_iterable",
    "api:endpoint.send_packet",
    "api:client.send_packet",
    "peer:reads",
    "peer:reset",
    "peer:close",
    "peer:silent-cancel-one",
    "senders_suspended",
    "returns_checked",
    "model_sequences",
    "model_two_waiters_parked",
    "datagram_cases",
    "api:tls.send_all",
    "datagram_send_crossing_high_water_itself",
    "datagram_listener_send_to_cases",
]
WATCHDOG = {"quick": 1200, "thorough": 7200}


def _tcp_pair_small():
    c, s = netutil.tcp_pair(sndbuf=4096, rcvbuf=4096, nodelay=False)
    s.setblocking(False)
    return c, s


def real_scenario(ctx, rng: random.Random, api: str, peer_mode: str) -> str | None:
    N = rng.randint(1, 5)
    size = rng.choice([300_000, 600_000, 1_000_000])
    log: list = []
    state: dict[str, Any] = {"read": 0}

    async def main(loop):
        backend = AsyncIOBackend()
        c, s = _tcp_pair_small()
        sent_lines = [("%d:" % i).encode() + b"x" * size for i in range(N)]
        tr = None
        cli = None
        if api == "client.send_packet":
            from easynetwork.clients.async_tcp import AsyncTCPNetworkClient

            cli = AsyncTCPNetworkClient(c, StreamProtocol(StringLineSerializer(limit=2_000_000)), backend)
            await cli.wait_connected()
            ep = getattr(cli, "_AsyncTCPNetworkClient__endpoint")
            tr = getattr(ep, "_AsyncStreamEndpoint__transport")
        else:
            tr = await backend.wrap_stream_socket(c)
            ep = AsyncStreamEndpoint(tr, StreamProtocol(StringLineSerializer(limit=2_000_000)), max_recv_size=1024) if api == "endpoint.send_packet" else None
        inner = getattr(tr, "_AsyncioTransportStreamSocketAdapter__transport")
        tls = None
        if api == "tls.send_all":
            # the TLS transport over the asyncio adapter, used through the low-level API (several concurrent senders)
            from easynetwork.lowlevel.api_async.transports.tls import AsyncTLSStreamTransport

            class _RawPeer:
                async def send_all(self_inner, data):
                    await asyncio.get_running_loop().sock_sendall(s, data)

                async def recv_into(self_inner, buf):
                    try:
                        return await asyncio.get_running_loop().sock_recv_into(s, buf)
                    except OSError:
                        return 0

            peer = tlspeer.AsyncPeer(_RawPeer(), tlspeer.server_context("1.3"), server_side=True)
            hs = asyncio.ensure_future(peer.handshake())
            tls = await AsyncTLSStreamTransport.wrap(tr, tlspeer.client_context("1.3"), server_hostname="localhost", handshake_timeout=1e6, shutdown_timeout=1)
            await hs
            await peer.drain()

        async def one_send(i: int):
            data = sent_lines[i]
            if api == "tls.send_all":
                await tls.send_all(data + b"\n")
            elif api == "send_all":
                await tr.send_all(data + b"\n")
            elif api == "send_all_from_iterable":
                await tr.send_all_from_iterable([data[:1000], b"", data[1000:], b"\n"])
            elif api == "endpoint.send_packet":
                await ep.send_packet(data.decode())
            else:
                await cli.send_packet(data.decode())

        async def sender(i: int):
            try:
                await one_send(i)
                log.append(("returned", i, inner.get_write_buffer_size() + (tls._write_bio.pending if tls is not None else 0), state["read"], loop.iteration))
            except asyncio.CancelledError:
                log.append(("cancelled", i))
                raise
            except ConnectionError as exc:
                log.append(("connerr", i, type(exc).__name__, loop.iteration))
            except Exception as exc:  # noqa: BLE001
                log.append(("error", i, f"{type(exc).__name__}: {exc}", loop.iteration))

        if api == "endpoint.send_packet":
            # a bare endpoint refuses concurrent senders (BusyResourceError): one sender at a time there
            tasks = [asyncio.ensure_future(sender(0))]
            Nn = 1
        else:
            tasks = [asyncio.ensure_future(sender(i)) for i in range(N)]
            Nn = N
        # give the senders (virtual) time: nobody reads
        await asyncio.sleep(1.0)
        parked = [t for t in tasks if not t.done()]
        state["parked"] = len(parked)
        state["returned_before_read"] = [e for e in log if e[0] == "returned"]
        state["buffer_after_park"] = inner.get_write_buffer_size()

        async def read_all():
            lp = asyncio.get_running_loop()
            while True:
                try:
                    d = await lp.sock_recv(s, 1 << 20)
                except OSError:
                    return
                if not d:
                    return
                state["read"] += len(d)

        def in_flight() -> bool:
            # a reader is draining the peer socket and user-space still holds bytes the kernel has not accepted
            if rd is not None and not rd.done() and inner.get_write_buffer_size() > 0:
                return True
            # the peer closed / reset: the error event is on its way to the (not yet closing) transport
            return "lost_it" in state and not inner.is_closing() and any(not t.done() for t in tasks)

        rd = None
        loop.io_expected = in_flight
        if peer_mode == "reads":
            rd = asyncio.ensure_future(read_all())
            await asyncio.wait(tasks, timeout=600)
        elif peer_mode == "reset":
            s.setsockopt(socket.SOL_SOCKET, socket.SO_LINGER, struct.pack("ii", 1, 0))
            s.close()
            state["lost_it"] = loop.iteration
            await asyncio.wait(tasks, timeout=600)
            rd = None
        elif peer_mode == "close":
            s.close()
            state["lost_it"] = loop.iteration
            await asyncio.wait(tasks, timeout=600)
            rd = None
        else:  # silent, cancel one, then read
            if parked:
                victim = parked[rng.randrange(len(parked))]
                victim.cancel()
                await asyncio.sleep(0.5)
                state["victim_done"] = victim.done()
            rd = asyncio.ensure_future(read_all())
            await asyncio.wait(tasks, timeout=600)
        state["pending_after"] = [i for i, t in enumerate(tasks) if not t.done()]
        state["buffer_at_end"] = inner.get_write_buffer_size()
        state["real_stalls"] = loop.real_stalls
        state["real_waits"] = loop.real_waits
        loop.io_expected = None
        for t in tasks:
            t.cancel()
        await asyncio.gather(*tasks, return_exceptions=True)
        try:
            if cli is not None:
                await asyncio.wait_for(cli.aclose(), 5)
            else:
                await asyncio.wait_for(tr.aclose(), 5)
        except Exception:  # noqa: BLE001
            pass
        if rd is not None:
            try:
                await asyncio.wait_for(rd, 5)
            except Exception:  # noqa: BLE001
                pass
        try:
            s.close()
        except OSError:
            pass
        state["N"] = Nn

    try:
        vloop.run(main)
    except vloop.Quiescent as exc:
        return f"deadlock: {exc}"
    ctx.count("returns_checked", sum(1 for e in log if e[0] == "returned"))
    if state.get("real_waits"):
        ctx.count("real_io_waits_before_time_jump", state["real_waits"])
    if state.get("real_stalls"):
        ctx.count("real_io_stalls", state["real_stalls"])
    if state.get("parked"):
        ctx.count("senders_suspended", state["parked"])
    # (1) a send that returned must have left nothing in the user-space write buffer
    rets = [e for e in log if e[0] == "returned"]
    for e in rets:
        # TLS transport with several senders: what is queued when one send returns may belong to the senders behind it; only the
        # last one to return must leave nothing behind
        # (and a cancelled TLS sender leaves its ciphertext queued: only runs where every sender returned are judged)
        if e[2] != 0 and (api != "tls.send_all" or (e is rets[-1] and len(rets) == state["N"] and peer_mode == "reads")):
            return f"[{api}] send #{e[1]} returned with {e[2]} bytes still queued in user space (peer had read {e[3]} bytes)"
    # (2) nobody may have completed while the peer read nothing: each payload is far bigger than the kernel buffers
    early = state.get("returned_before_read", [])
    if early:
        return f"[{api}] {len(early)} sends of {size} bytes returned although the peer had read nothing (kernel buffers are ~4 KiB): write buffer then held {state.get('buffer_after_park')} bytes"
    for e in log:
        if e[0] == "error":
            return f"[{api}] send #{e[1]} failed with {e[2]}"
    if peer_mode == "reads":
        if state["pending_after"]:
            return f"[{api}] senders {state['pending_after']} still suspended after the peer read everything"
        if sum(1 for e in log if e[0] == "returned") != state["N"]:
            return f"[{api}] only {sum(1 for e in log if e[0] == 'returned')} of {state['N']} sends completed after the peer read everything: {log}"
    elif peer_mode in ("reset", "close"):
        if state["pending_after"]:
            return f"[{api}] senders {state['pending_after']} still suspended after the connection was lost ({peer_mode})"
        bad = [e for e in log if e[0] == "returned"]
        if bad:
            failed = sorted(e[1] for e in log if e[0] == "connerr")
            if api == "tls.send_all" and all(e[1] >= 2 for e in bad) and failed[:2] == [0, 1]:
                return f"TLS-QUEUED-SENDER [{api}] sends {sorted(e[1] for e in bad)} (queued third or later behind the send lock) returned normally although the connection was lost ({peer_mode}) before the peer read anything: the second sender took their ciphertext out of the write BIO for its own flush, which failed"
            return f"[{api}] send returned normally although the peer {peer_mode} before reading the payload"
    else:
        if state["pending_after"]:
            return f"[{api}] senders {state['pending_after']} stranded after another sender was cancelled and the peer read again"
    return None


# ------------------------------------------------------------------------------------------ datagram


def datagram_scenario(ctx, rng: random.Random) -> str | None:
    """UDP endpoint: sendto + drain; the asyncio transport is told to keep a high-water mark of 0 and reports pause/resume
    through the protocol; with a scripted pause the sender must stay parked until resume / fail on connection_lost"""
    out: dict[str, Any] = {}

    async def main(loop):
        from easynetwork.lowlevel.api_async.backend._asyncio.datagram.endpoint import create_datagram_endpoint

        a = socket.socket(socket.AF_INET, socket.SOCK_DGRAM)
        a.bind((netutil.rand_loopback(), 0))
        b = socket.socket(socket.AF_INET, socket.SOCK_DGRAM)
        b.bind((netutil.rand_loopback(), 0))
        a.setblocking(False)
        target = rng.choice(["endpoint", "listener"])
        out["target"] = target
        if target == "endpoint":
            a.connect(b.getsockname())
            ep = await create_datagram_endpoint(sock=a)
            proto = getattr(ep, "_DatagramEndpoint__protocol")
            tr_attr = "_DatagramEndpoint__transport"
        else:
            # the server-side send path: DatagramListenerSocketAdapter.send_to() (AsyncDatagramServer.send_packet_to, UDP server handlers)
            from easynetwork.lowlevel.api_async.backend._asyncio.backend import AsyncIOBackend as _B
            from easynetwork.lowlevel.api_async.backend._asyncio.datagram.listener import DatagramListenerProtocol, DatagramListenerSocketAdapter

            dtr, proto = await loop.create_datagram_endpoint(lambda: DatagramListenerProtocol(loop=loop), sock=a)
            adapter = DatagramListenerSocketAdapter(_B(), dtr, proto)
            dest = b.getsockname()
            tr_attr = "_DatagramListenerSocketAdapter__transport"

            class _Ep:
                async def sendto(self_inner, data, addr):
                    await adapter.send_to(data, dest)

                def close_nowait(self_inner):
                    dtr.abort()

            setattr(_Ep, tr_attr, None)
            ep = _Ep()
            ctx.count("datagram_listener_send_to_cases")
        mode = rng.choice(["resume", "lost-exc", "lost-none", "cancel-one"])
        out["mode"] = mode
        self_pause = rng.random() < 0.5
        out["self_pause"] = self_pause
        if self_pause:
            # the send itself is what crosses the high-water mark: the OS refuses the datagram, asyncio queues it and calls
            # pause_writing() from inside transport.sendto() (scripted here through a proxy of the asyncio transport)
            holder = ep if target == "endpoint" else adapter
            real_tr = getattr(holder, tr_attr)

            class _RefusingTransport:
                def __init__(self) -> None:
                    self.queued: list = []

                def sendto(self, data, addr=None):
                    self.queued.append(bytes(data))
                    if len(self.queued) == 1:
                        proto.pause_writing()

                def __getattr__(self, name):
                    return getattr(real_tr, name)

            setattr(holder, tr_attr, _RefusingTransport())
            ctx.count("datagram_send_crossing_high_water_itself")
        else:
            proto.pause_writing()
        results: list = []

        async def snd(i):
            try:
                await ep.sendto(b"dgram%d" % i, None)
                results.append(("ok", i))
            except asyncio.CancelledError:
                results.append(("cancelled", i))
                raise
            except OSError as exc:
                results.append(("oserror", i, exc.errno))

        n = rng.randint(1, 4)
        tasks = [asyncio.ensure_future(snd(i)) for i in range(n)]
        for _ in range(3):
            await asyncio.sleep(0)
        out["done_while_paused"] = [r for r in results]
        if mode == "resume":
            proto.resume_writing()
        elif mode == "lost-exc":
            proto.connection_lost(ConnectionResetError(errno.ECONNRESET, "x"))
        elif mode == "lost-none":
            proto.connection_lost(None)
        else:
            tasks[0].cancel()
            for _ in range(2):
                await asyncio.sleep(0)
            proto.resume_writing()
        for _ in range(4):
            await asyncio.sleep(0)
        out["results"] = list(results)
        out["pending"] = [i for i, t in enumerate(tasks) if not t.done()]
        out["n"] = n
        for t in tasks:
            t.cancel()
        await asyncio.gather(*tasks, return_exceptions=True)
        ep.close_nowait()
        b.close()

    try:
        vloop.run(main)
    except vloop.Quiescent as exc:
        return f"deadlock: {exc}"
    if out["done_while_paused"]:
        return f"datagram send returned while the protocol was paused{' by that very send' if out.get('self_pause') else ''}: {out['done_while_paused']}"
    if out["pending"]:
        return f"datagram senders {out['pending']} stranded after '{out['mode']}'"
    kinds = [r[0] for r in out["results"]]
    if out["mode"] == "resume" and kinds.count("ok") != out["n"]:
        return f"after resume_writing only {kinds.count('ok')} of {out['n']} datagram sends completed"
    if out["mode"].startswith("lost") and kinds.count("oserror") != out["n"]:
        return f"after connection_lost the parked datagram senders ended as {kinds}"
    if out["mode"] == "cancel-one" and kinds.count("ok") != out["n"] - 1:
        return f"after cancelling one parked datagram sender the others ended as {kinds}"
    return None


# ------------------------------------------------------------------------------------------ model


class FakeTransport:
    def __init__(self) -> None:
        self.closing = False

    def is_closing(self) -> bool:
        return self.closing


def model_sequence(ctx, rng: random.Random) -> str | None:
    n = rng.randint(3, 14)
    events = []
    ndr = 0
    for _ in range(n):
        r = rng.random()
        if r < 0.3:
            events.append(("drain",))
            ndr += 1
        elif r < 0.5:
            events.append(("pause",))
        elif r < 0.7:
            events.append(("resume",))
        elif r < 0.8 and ndr:
            events.append(("cancel", rng.randrange(ndr)))
        elif r < 0.87:
            events.append(("lost", rng.choice([None, "exc"])))
        elif r < 0.93:
            events.append(("closing",))
        else:
            events.append(("yield",))
    out: dict[str, Any] = {"why": None}

    async def main(loop):
        tr = FakeTransport()
        fc = WriteFlowControl(tr, loop, connection_lost_errno=errno.ECONNRESET)
        # reference model
        paused = False
        lost = False
        lost_exc = None
        parked: set[int] = set()
        expect: dict[int, str] = {}
        drains: list[asyncio.Task] = []
        results: dict[int, str] = {}
        max_parked = 0

        async def drain(i):
            try:
                await fc.drain()
                results[i] = "returned"
            except asyncio.CancelledError:
                results[i] = "cancelled"
                raise
            except OSError as exc:
                results[i] = "raised"

        for ev in events:
            if ev[0] == "drain":
                i = len(drains)
                drains.append(asyncio.ensure_future(drain(i)))
                # model: decided when the coroutine takes its first step(s)
                if lost:
                    expect[i] = "raised"
                elif not paused:
                    expect[i] = "returned"
                else:
                    parked.add(i)
                    expect[i] = "parked"
                # run it to its first suspension (closing adds one yield)
                for _ in range(3):
                    await asyncio.sleep(0)
                # a drain started while closing yields once; the state may not change in between here
            elif ev[0] == "pause":
                if not lost:
                    fc.pause_writing()
                    paused = True
            elif ev[0] == "resume":
                fc.resume_writing()
                paused = False
                for i in list(parked):
                    expect[i] = "returned"
                parked.clear()
            elif ev[0] == "cancel":
                i = ev[1]
                if i < len(drains) and not drains[i].done():
                    drains[i].cancel()
                    if i in parked:
                        parked.discard(i)
                        expect[i] = "cancelled"
            elif ev[0] == "lost":
                exc = ConnectionResetError(errno.ECONNRESET, "scripted") if ev[1] else None
                if not lost:
                    fc.connection_lost(exc)
                    lost = True
                    paused = False
                    for i in list(parked):
                        expect[i] = "raised"
                    parked.clear()
            elif ev[0] == "closing":
                tr.closing = True
            for _ in range(2):
                await asyncio.sleep(0)
            max_parked = max(max_parked, len(parked))
            # compare
            for i, t in enumerate(drains):
                got = results.get(i, "parked" if not t.done() else "?")
                if got != expect.get(i):
                    out["why"] = f"after event {ev} drain #{i} is '{got}', the reference model says '{expect.get(i)}' (events {events})"
                    break
            if out["why"]:
                break
        out["max_parked"] = max_parked
        for t in drains:
            t.cancel()
        await asyncio.gather(*drains, return_exceptions=True)

    try:
        vloop.run(main)
    except vloop.Quiescent as exc:
        return f"deadlock: {exc}"
    if out.get("max_parked", 0) >= 2:
        ctx.count("model_two_waiters_parked")
    return out["why"]


APIS = ["send_all", "send_all_from_iterable", "endpoint.send_packet", "client.send_packet", "tls.send_all"]
PEERS = ["reads", "reset", "close", "silent-cancel-one"]


def plan(tier: str, seed: int) -> list[dict]:
    shards = []
    k = 0
    reps = 4 if tier == "quick" else 400
    for api in APIS:
        for peer in PEERS:
            shards.append({"seed": seed * 1000 + k, "api": api, "peer": peer, "reps": reps, "model": 300 if tier == "quick" else 40000, "dgram": 20 if tier == "quick" else 2000})
            k += 1
    return shards


def run_shard(params: dict, ctx) -> None:
    rng = random.Random(params["seed"])
    api, peer = params["api"], params["peer"]
    for r in range(params["reps"]):
        ctx.count(f"api:{api}")
        ctx.count(f"peer:{peer}")
        why = real_scenario(ctx, rng, api, peer)
        ctx.case(True, api, peer, params["seed"], r)
        if why:
            if why.startswith("TLS-QUEUED-SENDER"):
                key = "tls-queued-sender-success-after-failed-flush"
            elif "still queued in user space" in why or "returned although the peer had read nothing" in why:
                key = f"no-backpressure:{api}"
            elif "AttributeError" in why and "_add_writer" in why:
                key = "writelines-on-lost-connection-attributeerror"
            elif "deadlock" in why:
                key = f"deadlock:{api}:{peer}"
            elif "stranded" in why or "still suspended" in why:
                key = f"stranded:{api}:{peer}"
            else:
                key = f"other:{api}:{peer}"
            ctx.violation(key, why, {"api": api, "peer": peer, "seed": params["seed"], "rep": r, "kind": "real"})
    for i in range(params["model"]):
        if ctx.should_stop(50):
            return
        ctx.count("model_sequences")
        why = model_sequence(ctx, rng)
        ctx.case(True, "model", params["seed"], i)
        if why:
            ctx.violation("flow-control-model", why, {"kind": "model", "seed": params["seed"], "i": i})
    for i in range(params["dgram"]):
        ctx.count("datagram_cases")
        why = datagram_scenario(ctx, rng)
        ctx.case(True, "dgram", params["seed"], i)
        if why:
            ctx.violation("datagram-flow", why, {"kind": "dgram", "seed": params["seed"], "i": i})
    ctx.sample({"api": api, "peer": peer, "payload": "300 KiB..1 MiB per sender, 1..5 senders, SO_SNDBUF=SO_RCVBUF=4096"})


def replay(witness: dict, ctx) -> None:
    rng = random.Random(witness["seed"])
    if witness["kind"] == "real":
        for r in range(witness["rep"] + 1):
            why = real_scenario(ctx, rng, witness["api"], witness["peer"])
        if why:
            ctx.violation("replayed", why, witness)
    else:
        run_shard({"seed": witness["seed"], "api": "send_all", "peer": "reads", "reps": 0, "model": 400, "dgram": 30}, ctx)
