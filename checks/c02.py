"""C02 — parsing depends only on the bytes; one bad frame costs exactly one error.

Streams are built frame by frame from known classes (VALID with a unique id, UNDECODABLE, BAND = right at the
limit, OVER = far over the limit). Rule 1: SAFE-only streams decode to the by-construction sequence for every
chunking / path / hint. Rule 2: with BAND/OVER frames, outputs are aligned on ids: every VALID frame is delivered
once, in order, byte-for-byte intact; SAFE undecodable frames cost exactly one non-limit error; limit errors and
filler-only "junk" are tolerated only inside the segment of a BAND/OVER frame (>= 1 limit error for OVER).
"""

from __future__ import annotations

import base64
import bz2
import json
import random
import zlib
from typing import Any, Callable

from easynetwork.exceptions import DeserializeError, StreamProtocolParseError
from easynetwork.lowlevel._stream import BufferedStreamDataConsumer, StreamDataConsumer
from easynetwork.protocol import BufferedStreamProtocol, StreamProtocol
from easynetwork.serializers import JSONSerializer, NamedTupleStructSerializer, StringLineSerializer
from easynetwork.serializers.abc import BufferedIncrementalPacketSerializer
from easynetwork.serializers.wrapper.base64 import Base64EncoderSerializer
from easynetwork.serializers.wrapper.compressor import BZ2CompressorSerializer, ZlibCompressorSerializer

from vlib import gen
from vlib.runner import HangDetected, cpu_guard

PROPERTY = "C02"
LEVEL = "exploration"
RULE = (
    "case = (framing family, limit, frame-class sequence, chunking / fill sequence, receive path); frames are VALID(id) / "
    "UNDECODABLE / BAND / OVER with SAFE <=> payload+sep <= limit-sep-1, OVER <=> payload >= limit+sep+1; chunkings: random, "
    "every single cut for short streams, cuts inside the terminator of BAND/OVER frames, first fill = limit-k for k=0..seplen+1. "
    "non-trivial = the stream has a malformed/BAND/OVER frame followed by a VALID frame and at least one cut inside a frame; "
    "distinct = distinct (family, limit, stream, chunking, path)"
)
ASSUMPTIONS = [
    "SAFE means payload + separator <= limit - separator - 1 (conservative for both scanners); BAND = everything between SAFE and OVER, either outcome tolerated",
    "inside the segment of a BAND/OVER frame, filler-only packets and further errors are tolerated (what is emitted before the terminator legitimately depends on chunking)",
    "raw JSON, compressor, fixed-size and file-based framings have no terminator to resynchronise on and take part in rule 1 only",
    "an UNDECODABLE candidate is kept only if the serializer's one-shot deserialize() really raises DeserializeError on it",
]
REQUIRED = [
    "limit_error_then_valid",
    "limit_fired_buffer_full",
    "limit_fired_buffer_full_minus_1",
    "cut_in_terminator_of_big_frame",
    "undecodable_then_valid_same_chunk",
    "undecodable_then_valid_across_chunks",
    "rule1_cases",
    "rule2_cases",
    "band_delivered",
    "band_rejected",
]
WATCHDOG = {"quick": 900, "thorough": 7200}
CPU_BUDGET = 20
FILL = 0x5A  # 'Z'


class Family:
    name: str
    sep: bytes | None
    min_limit: int

    def serializer(self, limit: int) -> Any: ...
    def converter(self) -> Any:
        return None

    def valid(self, rng: random.Random, ident: int, maxlen: int) -> tuple[bytes, Any]: ...
    def undecodable(self, rng: random.Random, maxlen: int) -> tuple[bytes, str]: ...
    def is_junk(self, value: Any) -> bool: ...
    def has_id(self, value: Any) -> bool: ...


def _idtok(i: int) -> str:
    return f"ok{i:03d}q"


class LineFam(Family):
    def __init__(self, nl: str, enc: str) -> None:
        self.nl, self.enc = nl, enc
        self.sep = {"LF": b"\n", "CR": b"\r", "CRLF": b"\r\n"}[nl]
        self.name = f"line-{nl}-{enc}"
        self.min_limit = 8 + 2 * len(self.sep) + 1

    def serializer(self, limit: int) -> Any:
        return StringLineSerializer(self.nl, encoding=self.enc, limit=limit)

    def valid(self, rng, ident, maxlen):
        tok = _idtok(ident)
        pad_pool = "abc ~{}" + ("\r" if self.nl == "LF" else "") + ("\n" if self.nl == "CR" else "") + ("é中" if self.enc == "utf-8" else "")
        text = tok
        while True:
            c = rng.choice(pad_pool)
            if len((text + c).encode(self.enc)) > maxlen or rng.random() < 0.3:
                break
            text += c
        if self.nl == "CRLF" and rng.random() < 0.3 and len(text.encode(self.enc)) < maxlen:
            text += "\r"  # lone CR right before the terminator
        return text.encode(self.enc), text

    def undecodable(self, rng, maxlen):
        bad = b"\xe9" if self.enc == "ascii" else rng.choice([b"\xff", b"\xc3", b"\xe4\xb8", b"\xed\xa0\x80"])
        body = (b"bad" + bad + b"x")[:maxlen] if maxlen >= len(bad) + 4 else bad
        return body, "IncrementalDeserializeError"

    def is_junk(self, v):
        return isinstance(v, str) and set(v) <= {"Z"}

    def has_id(self, v):
        return isinstance(v, str) and "ok" in v


class RawSepFam(Family):
    def __init__(self, sep: bytes) -> None:
        self.sep = sep
        self.name = f"rawsep-{sep.hex()}"
        self.min_limit = 8 + 2 * len(sep) + 1

    def serializer(self, limit):
        return gen.RawSep(self.sep, limit=limit)

    def valid(self, rng, ident, maxlen):
        tok = _idtok(ident).encode()
        pool = bytes(set(self.sep) - {FILL}) * 2 + b"xy"
        p = tok
        for _ in range(rng.randint(0, max(0, maxlen - len(tok)))):
            q = p + bytes([rng.choice(pool)])
            if (q + self.sep).find(self.sep) != len(q):
                break
            p = q
        return p, p

    def undecodable(self, rng, maxlen):
        return (b"bad\xffx")[: max(4, maxlen)], "IncrementalDeserializeError"

    def is_junk(self, v):
        return isinstance(v, bytes) and set(v) <= {FILL}

    def has_id(self, v):
        return isinstance(v, bytes) and b"ok" in v


class JsonLinesFam(Family):
    name = "json-lines"
    sep = b"\n"
    min_limit = 15 + 3

    def serializer(self, limit):
        return JSONSerializer(limit=limit)

    def valid(self, rng, ident, maxlen):
        v: Any = {"id": _idtok(ident)}
        if maxlen >= 40 and rng.random() < 0.5:
            v["p"] = rng.choice(["\\", '"', "[", "}", "é"])
        return json.dumps(v, separators=(",", ":")).encode(), v

    def undecodable(self, rng, maxlen):
        return rng.choice([b'{"k" 1}', b"[1,,2]", b"nope", b'"abc', b"\xff\xfe"]), "IncrementalDeserializeError"

    def is_junk(self, v):
        return False  # 'ZZZ' is not JSON: a delivered filler frame is an error, never a packet

    def has_id(self, v):
        return "ok" in repr(v)


class JsonConvFam(JsonLinesFam):
    name = "json-lines-converter"
    min_limit = 40

    def converter(self):
        return gen.PersonConverter()

    def valid(self, rng, ident, maxlen):
        p = gen.Person(_idtok(ident), ident)
        return json.dumps({"name": p.name, "age": p.age}, separators=(",", ":")).encode(), p

    def undecodable(self, rng, maxlen):
        return rng.choice([(b'{"name":1}', "PacketConversionError"), (b"[]", "PacketConversionError"), (b'{"k" 1}', "IncrementalDeserializeError")])


class B64Fam(Family):
    def __init__(self, sep: bytes, checksum: bool, alphabet: str) -> None:
        self.sep, self.checksum, self.alphabet = sep, checksum, alphabet
        self.name = f"b64-{alphabet}-{'sha' if checksum else 'nock'}-{sep.hex()}"
        self.min_limit = (72 if checksum else 28) + 2 * len(sep) + 1

    def serializer(self, limit):
        return Base64EncoderSerializer(JSONSerializer(), alphabet=self.alphabet, checksum=self.checksum, separator=self.sep, limit=limit)

    def valid(self, rng, ident, maxlen):
        v = {"id": _idtok(ident)}
        return self.serializer(1 << 16).serialize(v), v

    def undecodable(self, rng, maxlen):
        good = self.serializer(1 << 16).serialize({"id": "zz"})
        k = rng.randrange(4)
        if k == 0:
            body = b"!!!!"
        elif k == 1:
            body = good[:-3]  # broken padding / checksum
        elif k == 2:
            body = base64.urlsafe_b64encode(b"not json{")
        else:
            body = bytes([good[0] ^ 1]) + good[1:]
        return body, "IncrementalDeserializeError"

    def is_junk(self, v):
        return False

    def has_id(self, v):
        return "ok" in repr(v)


# ---- rule-1-only families (no terminator)


class JsonRawFam(Family):
    name = "json-raw"
    sep = None
    min_limit = 64

    def serializer(self, limit):
        return JSONSerializer(use_lines=False, limit=limit)

    def valid(self, rng, ident, maxlen):
        v: Any = rng.choice([{"id": _idtok(ident)}, [_idtok(ident), {"a": "}"}], {"id": _idtok(ident), "s": '\\"]'}])
        return json.dumps(v, separators=(",", ":")).encode(), v

    def undecodable(self, rng, maxlen):
        # incl. a stray / duplicated closing bracket: a frame of exactly one byte that costs exactly one error
        return rng.choice([b'{"k" 1}', b"[1,,2]", b'{"a":[1 2]}', b"[nope]", b"}", b"]", b"}", b"]"]), "IncrementalDeserializeError"


class CompressFam(Family):
    sep = None
    min_limit = 64

    def __init__(self, kind: str) -> None:
        self.kind = kind
        self.name = f"{kind}-json"

    def serializer(self, limit):
        cls = ZlibCompressorSerializer if self.kind == "zlib" else BZ2CompressorSerializer
        return cls(JSONSerializer())

    def _comp(self, b: bytes) -> bytes:
        return zlib.compress(b) if self.kind == "zlib" else bz2.compress(b)

    def valid(self, rng, ident, maxlen):
        v = {"id": _idtok(ident)}
        return self._comp(json.dumps(v).encode()), v

    def undecodable(self, rng, maxlen):
        return self._comp(rng.choice([b"not json{", b"[1,,2]", b"\xff\xfe"])), "IncrementalDeserializeError"


class FixedFam(Family):
    name = "fixed8"
    sep = None
    min_limit = 64

    def serializer(self, limit):
        return gen.Fixed8(8)

    def valid(self, rng, ident, maxlen):
        p = (b"ok%03dq" % ident).ljust(8, b".")
        return p, p

    def undecodable(self, rng, maxlen):
        return b"\xffbadbad!", "IncrementalDeserializeError"


class NTStructFam(Family):
    name = "ntstruct-point"
    sep = None
    min_limit = 64

    def serializer(self, limit):
        return NamedTupleStructSerializer(gen.Point, {"x": "i", "name": "10s", "flag": "B"})

    def valid(self, rng, ident, maxlen):
        p = gen.Point(ident, _idtok(ident), ident % 256)
        return self.serializer(0).serialize(p), p

    def undecodable(self, rng, maxlen):
        import struct

        return struct.pack("!i10sB", 1, b"bad\xff\xfe", 2), "IncrementalDeserializeError"


class LenFileFam(Family):
    name = "lenfile"
    sep = None
    min_limit = 64

    def serializer(self, limit):
        return gen.LenPrefixedFile(limit=max(limit, 4096))

    def valid(self, rng, ident, maxlen):
        t = _idtok(ident) + rng.choice(["", "é", "\n\n"])
        raw = t.encode()
        return len(raw).to_bytes(2, "big") + raw, t

    def undecodable(self, rng, maxlen):
        raw = b"bad\xff\xfe"
        return len(raw).to_bytes(2, "big") + raw, "IncrementalDeserializeError"


def families() -> list[Family]:
    fams: list[Family] = []
    for nl in ("LF", "CR", "CRLF"):
        for enc in ("ascii", "utf-8"):
            fams.append(LineFam(nl, enc))
    for sep in (b"\x00", b"\r\n", b"aab", b"|#|", b"aba"):
        fams.append(RawSepFam(sep))
    fams.append(JsonLinesFam())
    fams.append(JsonConvFam())
    fams.append(B64Fam(b"\r\n", False, "urlsafe"))
    fams.append(B64Fam(b"|#|", True, "standard"))
    fams.append(B64Fam(b"\n", False, "standard"))
    fams += [JsonRawFam(), CompressFam("zlib"), CompressFam("bz2"), FixedFam(), NTStructFam(), LenFileFam()]
    return fams


def fam_by_name(name: str) -> Family:
    for f in families():
        if f.name == name:
            return f
    raise KeyError(name)


# --------------------------------------------------------------------------------------------


def build_stream(fam: Family, rng: random.Random, limit: int, classes: list[str]) -> tuple[bytes, list[dict]]:
    """returns (stream, frames) ; frames: {cls, start, end, payload_len, expect}"""
    S = len(fam.sep) if fam.sep else 0
    safe_max = limit - 2 * S - 1 if fam.sep else 1 << 16
    ser = fam.serializer(1 << 16)
    conv = fam.converter()
    stream = bytearray()
    frames = []
    ident = rng.randrange(100, 900)
    for cls in classes:
        start = len(stream)
        if cls == "V":
            ident += 1
            payload, value = fam.valid(rng, ident, safe_max)
            assert len(payload) <= safe_max, (fam.name, limit, len(payload), safe_max)
            got = ser.deserialize(payload)
            if conv is not None:
                got = conv.create_from_dto_packet(got)
            assert repr(got) == repr(value), (got, value)
            exp: Any = ("P", value)
        elif cls == "U":
            for _ in range(20):
                payload, inner = fam.undecodable(rng, safe_max)
                if len(payload) > safe_max:
                    continue
                try:
                    dto = ser.deserialize(payload)
                    if conv is not None and inner == "PacketConversionError":
                        try:
                            conv.create_from_dto_packet(dto)
                        except Exception:  # noqa: BLE001
                            break
                    continue
                except DeserializeError:
                    if inner == "PacketConversionError":
                        inner = "IncrementalDeserializeError"
                    break
            else:
                raise AssertionError(f"no undecodable candidate for {fam.name} limit {limit}")
            exp = ("E", "StreamProtocolParseError", inner)
        elif cls == "B":
            P = rng.randint(limit - 2 * S, limit + S)
            payload = bytes([FILL]) * P
            exp = None
        elif cls == "O":
            P = rng.choice([limit + S + 1, limit + S + 2, limit + S + rng.randint(1, limit), rng.randint(limit + S + 1, 4 * limit)])
            payload = bytes([FILL]) * P
            exp = None
        else:
            raise ValueError(cls)
        stream += payload
        if fam.sep:
            stream += fam.sep
        frames.append({"cls": cls, "start": start, "end": len(stream), "plen": len(payload), "expect": exp})
    return bytes(stream), frames


def _is_limit(o: tuple) -> bool:
    return o[0] == "E" and o[2] == "LimitOverrunError"


def match(fam: Family, frames: list[dict], out: list) -> str | None:
    """align outputs with frames; returns None if a valid alignment exists, else an explanation"""
    n, m = len(frames), len(out)
    memo: dict[tuple[int, int], bool] = {}

    def junk(o: tuple) -> bool:
        if o[0] == "E":
            return True
        return fam.is_junk(o[1])

    def rec(i: int, j: int) -> bool:
        key = (i, j)
        if key in memo:
            return memo[key]
        if i == n:
            r = j == m
        else:
            f = frames[i]
            if f["cls"] in ("V", "U"):
                r = j < m and repr(out[j]) == repr(f["expect"]) and rec(i + 1, j + 1)
            else:
                # consume k >= 0 junk outputs; OVER needs at least one limit error among them
                r = False
                k = j
                seen_limit = False
                while True:
                    if (f["cls"] == "B" or seen_limit) and rec(i + 1, k):
                        r = True
                        break
                    if k < m and junk(out[k]):
                        seen_limit = seen_limit or _is_limit(out[k])
                        k += 1
                    else:
                        break
        memo[key] = r
        return r

    if rec(0, 0):
        return None
    # explanation: find first offending item
    exp_ids = [f["expect"] for f in frames if f["cls"] == "V"]
    got_ids = [o for o in out if o[0] == "P" and fam.has_id(o[1])]
    if [repr(x) for x in got_ids] != [repr(x) for x in exp_ids]:
        return f"id-carrying packets differ: got {[o[1] for o in got_ids]!r} expected {[e[1] for e in exp_ids]!r}"
    for o in out:
        if _is_limit(o) and not any(f["cls"] in "BO" for f in frames):
            return "limit error in a stream of SAFE frames"
    return f"outputs do not align with frames: {out!r} vs classes {''.join(f['cls'] for f in frames)}"


def run_copy(proto: StreamProtocol, chunks: list[bytes]) -> list:
    consumer = StreamDataConsumer(proto)
    out: list = []
    from vlib.drive import drain_copy

    drain_copy(consumer, None, out)
    for c in chunks:
        drain_copy(consumer, c, out)
    return out


def run_buffered(ctx, proto: BufferedStreamProtocol, stream: bytes, fills: list[int], hint: int, seplen: int) -> list:
    consumer = BufferedStreamDataConsumer(proto, hint)
    out: list = []

    def drain(n):
        first = True
        for _ in range(100000):
            try:
                pkt = consumer.next(n if first else None)
            except StopIteration:
                return
            except StreamProtocolParseError as exc:
                out.append(("E", type(exc).__name__, type(exc.error).__name__))
                if type(exc.error).__name__ == "LimitOverrunError" and ctx is not None:
                    room = last["room"]
                    if room == 0:
                        ctx.count("limit_fired_buffer_full")
                    elif room == 1:
                        ctx.count("limit_fired_buffer_full_minus_1")
                    if room == seplen and seplen > 1:
                        ctx.count("limit_fired_buffer_full_minus_seplen")
            else:
                out.append(("P", pkt))
            finally:
                first = False
        raise AssertionError("no progress")

    last = {"room": -1}
    drain(None)
    pos, i = 0, 0
    while pos < len(stream):
        fill = fills[i % len(fills)]
        i += 1
        with memoryview(consumer.get_write_buffer()) as view:
            n = min(view.nbytes, fill, len(stream) - pos)
            view[:n] = stream[pos : pos + n]
            last["room"] = view.nbytes - n
        pos += n
        drain(n)
    return out


def one_case(ctx, fam: Family, limit: int, stream: bytes, frames: list[dict], cuts: list[int], fills: list[int] | None, hint: int, tag: Any) -> None:
    has_big = any(f["cls"] in "BO" for f in frames)
    ser = fam.serializer(limit)
    sproto = StreamProtocol(ser, fam.converter())
    bproto = BufferedStreamProtocol(ser, fam.converter()) if isinstance(ser, BufferedIncrementalPacketSerializer) else None
    ends = {f["end"] for f in frames}
    inside = any(c not in ends for c in cuts)
    bad_then_valid = any(frames[i]["cls"] != "V" and any(g["cls"] == "V" for g in frames[i + 1 :]) for i in range(len(frames)))
    nontrivial = bad_then_valid and inside
    S = len(fam.sep) if fam.sep else 0
    ctx.count("rule2_cases" if has_big else "rule1_cases")
    for f in frames:
        if f["cls"] in "BO" and S >= 2 and any(f["end"] - S < c < f["end"] for c in cuts):
            ctx.count("cut_in_terminator_of_big_frame")
    cutset = set(cuts)
    for i in range(len(frames) - 1):
        if frames[i]["cls"] == "U" and frames[i + 1]["cls"] == "V":
            lo, hi = frames[i]["start"], frames[i + 1]["end"]
            if any(lo < c < hi for c in cutset):
                ctx.count("undecodable_then_valid_across_chunks")
            else:
                ctx.count("undecodable_then_valid_same_chunk")

    def witness(path: str, why: str, out: Any) -> dict:
        return {
            "family": fam.name,
            "limit": limit,
            "classes": "".join(f["cls"] for f in frames),
            "stream": stream,
            "frames": [[f["cls"], f["start"], f["end"]] for f in frames],
            "cuts": cuts,
            "fills": fills,
            "hint": hint,
            "path": path,
            "why": why,
            "out": repr(out)[:600],
            "tag": tag,
        }

    def classify(path: str, out: list | None, why: str) -> str:
        return f"{path}:{'big' if has_big else 'safe'}:{fam.name.split('-')[0]}"

    results = {}
    for path in ("copy", "buffered"):
        if path == "buffered" and bproto is None:
            continue
        ctx.case(nontrivial, fam.name, limit, stream, tuple(cuts), tuple(fills or ()), path)
        out = None
        try:
            with cpu_guard(CPU_BUDGET):
                if path == "copy":
                    out = run_copy(sproto, gen.chunks_from_cuts(stream, cuts))
                else:
                    out = run_buffered(ctx, bproto, stream, fills or gen.fills_from_cuts(len(stream), cuts), hint, S)
            why = match(fam, frames, out)
        except (Exception, HangDetected) as exc:  # noqa: BLE001
            why = f"exception {type(exc).__name__}: {exc}"
        results[path] = out
        if why:
            ctx.violation(classify(path, out, why), f"{path} path, {fam.name}, limit {limit}: {why}", witness(path, why, out))
        elif out is not None and has_big:
            # observation counters
            for i, o in enumerate(out):
                if _is_limit(o) and any(p[0] == "P" and fam.has_id(p[1]) for p in out[i + 1 :]):
                    ctx.count("limit_error_then_valid")
                    break
            for f in frames:
                if f["cls"] == "B":
                    ctx.count("band_rejected" if any(_is_limit(o) for o in out) else "band_delivered")
                    break
    if not has_big and len(results) == 2 and results["copy"] is not None and results["buffered"] is not None:
        if repr(results["copy"]) != repr(results["buffered"]):
            ctx.violation(f"paths-disagree:{fam.name.split('-')[0]}", "copying and buffer-filling consumers disagree on a SAFE stream", witness("both", "disagree", results))


_SHAPES_SAFE = ["VUV", "UV", "UUV", "VVUVV", "UVU", "VUUVUV", "U", "VU"]
_SHAPES_BIG = ["OV", "BV", "VOV", "VBV", "OVV", "BUV", "OUV", "VOUVBV", "OOV", "BBV", "UOV", "VBUV", "O", "B", "OBV"]


def plan(tier: str, seed: int) -> list[dict]:
    iters = 12 if tier == "quick" else 300
    return [{"seed": seed * 1000 + k, "iters": iters} for k in range(16)]


def run_shard(params: dict, ctx) -> None:
    rng = random.Random(params["seed"])
    fams = families()
    ctx.notes["families"] = [f.name for f in fams]
    for fam in fams:
        S = len(fam.sep) if fam.sep else 0
        for it in range(params["iters"]):
            if ctx.should_stop(400):
                return
            # ---- rule 1
            limit = rng.choice([fam.min_limit, fam.min_limit + rng.randint(1, 40), 256, 4096])
            classes = rng.choice(_SHAPES_SAFE)
            stream, frames = build_stream(fam, rng, limit, list(classes))
            interesting = [f["end"] for f in frames] + [f["end"] - 1 for f in frames] + [f["start"] + 1 for f in frames]
            chunkings = [gen.random_cuts(rng, len(stream)) for _ in range(3)] + [gen.targeted_cuts(rng, len(stream), interesting) for _ in range(2)]
            if len(stream) <= 40:
                chunkings += [[c] for c in range(1, len(stream))]
            for cuts in chunkings:
                one_case(ctx, fam, limit, stream, frames, cuts, None, rng.choice(gen.HINTS), [params["seed"], it, "r1"])
            if it == 0:
                ctx.sample({"family": fam.name, "limit": limit, "classes": classes, "stream": stream[:100], "cuts": chunkings[0]})
            # ---- rule 2
            if not fam.sep:
                continue
            limit = rng.choice([fam.min_limit, fam.min_limit + rng.randint(0, 12), fam.min_limit + rng.randint(0, 60)])
            classes = rng.choice(_SHAPES_BIG)
            stream, frames = build_stream(fam, rng, limit, list(classes))
            big = [f for f in frames if f["cls"] in "BO"]
            interesting = []
            for f in frames:
                interesting += [f["end"], f["end"] - 1, f["end"] - S, f["start"] + limit, f["start"] + limit - S]
            chunkings = [gen.random_cuts(rng, len(stream)) for _ in range(3)] + [gen.targeted_cuts(rng, len(stream), interesting) for _ in range(3)]
            for f in big:
                for k in range(1, S):
                    chunkings.append([f["end"] - k])
            for cuts in chunkings:
                one_case(ctx, fam, limit, stream, frames, cuts, None, rng.choice(gen.HINTS), [params["seed"], it, "r2"])
            # buffered: first fill sized so that the limit fires with the buffer full minus k bytes
            for f in big[:1]:
                for k in range(0, S + 2):
                    first = f["start"] % limit  # bytes of earlier frames do not matter once re-injected; approximate
                    fills = [max(1, limit - k)] + [rng.randint(1, limit) for _ in range(4)]
                    pre = [f["start"]] if f["start"] else []
                    one_case(ctx, fam, limit, stream, frames, [], pre + fills, 64, [params["seed"], it, "r2-fill", k])
            if it == 0:
                ctx.sample({"family": fam.name, "limit": limit, "classes": classes, "stream": stream[:100], "cuts": chunkings[3]})


def replay(witness: dict, ctx) -> None:
    fam = fam_by_name(witness["family"])
    stream = bytes.fromhex(witness["stream"]["hex"])
    frames = []
    rng = random.Random(0)
    # rebuild expectations from the recorded frame table: V/U expectations are recomputed by one-shot decode
    ser = fam.serializer(1 << 16)
    conv = fam.converter()
    S = len(fam.sep) if fam.sep else 0
    for cls, start, end in witness["frames"]:
        payload = stream[start : end - S]
        exp = None
        if cls == "V":
            v = ser.deserialize(payload)
            if conv is not None:
                v = conv.create_from_dto_packet(v)
            exp = ("P", v)
        elif cls == "U":
            inner = "IncrementalDeserializeError"
            try:
                dto = ser.deserialize(payload)
                inner = "PacketConversionError"
            except DeserializeError:
                pass
            exp = ("E", "StreamProtocolParseError", inner)
        frames.append({"cls": cls, "start": start, "end": end, "plen": end - S - start, "expect": exp})
    one_case(ctx, fam, witness["limit"], stream, frames, witness["cuts"], witness["fills"], witness["hint"], "replay")
