"""C08 — the TLS transport is a transparent, encrypted byte stream.

Monitor: AsyncTLSStreamTransport (client and server role) over a memory pipe against an independent stdlib SSLObject peer,
and the blocking SSLStreamTransport against a peer pumped from the selector. Writes of 1 byte .. several TLS records carrying
unique tokens; ciphertext fragmentation down to 1 byte per read, suspensions and virtual delays in the wrapped transport, both
directions active at once. Oracle: each side's read log equals the other side's write log (checked as a prefix at every read);
the virtual loop going quiescent with unfinished transfers is the deadlock verdict; no token and no 16-byte plaintext window
appears in the wire log. Also: the high-level TLS server torn down behind a late reader, the real asyncio socket adapter with a read
backlog, and a packet endpoint over TLS with refused / timed-out operations (send_eof, receive under an expired scope) between the writes.
"""

from __future__ import annotations

import asyncio
import os
import random
import selectors as _real_selectors
import socket
import ssl
from typing import Any

from easynetwork.lowlevel.api_async.backend._asyncio.backend import AsyncIOBackend
from easynetwork.lowlevel.api_async.transports.tls import AsyncTLSStreamTransport
from easynetwork.lowlevel.api_sync.transports.socket import SSLStreamTransport

from vlib import netutil  # noqa: E402
from vlib import memtransport, tlspeer, vloop, vselect
from vlib.runner import HangDetected, cpu_guard

PROPERTY = "C08"
LEVEL = "exploration"
RULE = (
    "case = one TLS session: (transport kind, TLS version, library role, write sizes from {1, 100, 16384, 16385, 50000,...} per direction, "
    "fragment size of the ciphertext in each direction (down to 1 byte), suspension points / virtual delays in the wrapped transport, "
    "reader API and read sizes). non-trivial = both directions carry data and the ciphertext is fragmented (fragment < 64 bytes or "
    "suspensions > 0); distinct = distinct session parameter tuples"
)
ASSUMPTIONS = [
    "independent peer = stdlib ssl.SSLObject over MemoryBIOs, self-signed certificate",
    "plaintext-leak scan: every 24-byte token and three 16-byte windows of each written message are searched in everything handed to the wrapped transport",
    "random payload bytes come from the seeded PRNG (a chance 16-byte collision with ciphertext is negligible)",
]
REQUIRED = [
    "bounded_pipe_sessions",
    "bounded_pipe_sequential_peer",
    "multi_writer_sessions",
    "sessions_async_client_role",
    "sessions_async_server_role",
    "sessions_sync",
    "handshake_1_byte_fragments",
    "both_directions_suspended",
    "record_split_3plus_reads",
    "multi_record_writes",
    "tls1.2",
    "tls1.3",
    "bytes_checked",
    "highlevel_server_sessions",
    "real_socket_backlog_sessions",
    "endpoint_sessions",
    "endpoint_refused_send_eof",
]
WATCHDOG = {"quick": 900, "thorough": 7200}
SIZES = [1, 2, 100, 1000, 16384, 16385, 50000]


def _payload(rng: random.Random, tag: str, size: int) -> bytes:
    tok = f"<<{tag}:{rng.getrandbits(64):016x}>>".encode()[:24]
    if size <= len(tok):
        return tok[:size]
    body = bytes(rng.getrandbits(8) for _ in range(min(size - len(tok), 512)))
    reps = (size - len(tok)) // max(1, len(body)) + 1
    return (tok + (body * reps))[:size]


def _windows(msgs: list[bytes]) -> list[bytes]:
    out = []
    for m in msgs:
        if len(m) >= 16:
            out += [m[:16], m[len(m) // 2 - 8 : len(m) // 2 + 8], m[-16:]]
        if len(m) >= 24:
            out.append(m[:24])
    return out


def async_session(ctx, rng: random.Random, version: str, lib_server: bool, p: dict) -> str | None:
    lib_msgs = [_payload(rng, f"L{i}", s) for i, s in enumerate(p["lib_sizes"])]
    peer_msgs = [_payload(rng, f"P{i}", s) for i, s in enumerate(p["peer_sizes"])]
    multi = p.get("lib_writers", 1) > 1
    if multi:
        # several writer tasks on the library side: every message is framed (writer id, seq, length) so that the peer's
        # plaintext can be checked for whole, unduplicated, per-writer-ordered messages whatever the interleaving of the calls
        lib_msgs = [bytes([65 + (i % p["lib_writers"])]) + (i // p["lib_writers"]).to_bytes(2, "big") + len(m).to_bytes(4, "big") + m for i, m in enumerate(lib_msgs)]
    lib_expect = b"".join(peer_msgs)
    peer_expect = b"".join(lib_msgs)
    state: dict[str, Any] = {"lib_read": bytearray(), "why": None, "phase": "handshake"}

    async def main(loop):
        backend = AsyncIOBackend()
        a, b = memtransport.stream_pair(backend)
        if p.get("capacity"):
            a.incoming.capacity = b.incoming.capacity = p["capacity"]  # bounded pipes: real back-pressure in both directions
        a.recv_cap = p["lib_recv_cap"]
        a.send_frag = p["lib_send_frag"]
        a.send_yield = p["lib_send_yield"]
        a.send_sleep = p["lib_send_sleep"]
        b.recv_cap = p["peer_recv_cap"]
        state["a"] = a
        peer = tlspeer.AsyncPeer(b, tlspeer.client_context(version) if lib_server else tlspeer.server_context(version), server_side=not lib_server)
        peer.frag = p["peer_frag"]
        state["peer"] = peer

        async def peer_side():
            await peer.handshake()

            async def w():
                for m in peer_msgs:
                    await peer.write(m)
                    if p["peer_pause"]:
                        await asyncio.sleep(p["peer_pause"])

            async def r():
                while len(peer.plaintext_in) < len(peer_expect):
                    before = len(peer.plaintext_in)
                    d = await peer.read_some(p["peer_read"])
                    if not d:
                        break
                    if not multi and peer_expect[before : before + len(d)] != d:
                        state["why"] = f"peer read bytes that the library did not write at offset {before}"
                        return

            if p.get("peer_sequential"):
                # a peer that sends everything before it reads anything (legitimate: the library has its own reader task)
                await w()
                await peer.drain()
                await r()
            else:
                await asyncio.gather(w(), r())

        pt = asyncio.ensure_future(peer_side())
        ctxl = tlspeer.server_context(version) if lib_server else tlspeer.client_context(version)
        t = await AsyncTLSStreamTransport.wrap(a, ctxl, server_side=lib_server, server_hostname=None if lib_server else "localhost", handshake_timeout=1e6, shutdown_timeout=1e6)
        state["phase"] = "transfer"
        state["hs_recv_calls"] = a.n_recv

        async def lw(which: int = 0, nw: int = 1):
            for i, m in enumerate(lib_msgs):
                if i % nw != which:
                    continue
                if p["lib_iterable"] and len(m) > 4:
                    await t.send_all_from_iterable([m[:3], b"", m[3:]])
                else:
                    await t.send_all(m)
                if p["lib_pause"]:
                    await asyncio.sleep(p["lib_pause"])

        async def lr():
            got = state["lib_read"]
            while len(got) < len(lib_expect):
                before = len(got)
                if p["reader"] == "recv":
                    d = await t.recv(rng.choice(p["read_sizes"]))
                else:
                    buf = bytearray(rng.choice(p["read_sizes"]))
                    n = await t.recv_into(buf)
                    d = bytes(buf[:n])
                if not d:
                    state["why"] = f"library side read end-of-stream after {before}/{len(lib_expect)} bytes"
                    return
                if lib_expect[before : before + len(d)] != d:
                    state["why"] = f"library read bytes that the peer did not write at offset {before}"
                    return
                got += d

        nw = p.get("lib_writers", 1)
        await asyncio.gather(*[lw(k, nw) for k in range(nw)], lr(), pt)
        state["phase"] = "close"
        closer = asyncio.ensure_future(t.aclose())
        await peer.read_until_end()
        await peer.unwrap()
        await closer
        state["phase"] = "done"

    try:
        vloop.run(main)
    except vloop.Quiescent as exc:
        return f"deadlock in phase {state['phase']}: {exc}"
    except (ssl.SSLError, OSError) as exc:
        return f"session failed in phase {state['phase']}: {type(exc).__name__}: {exc}"
    if state["why"]:
        return state["why"]
    peer = state["peer"]
    a = state["a"]
    if bytes(state["lib_read"]) != lib_expect:
        return f"library read {len(state['lib_read'])} bytes, peer wrote {len(lib_expect)}"
    if multi:
        data = bytes(peer.plaintext_in)
        pos = 0
        seen = []
        while pos < len(data):
            if pos + 7 > len(data):
                return f"peer's plaintext ends inside a message header at offset {pos}"
            ln = int.from_bytes(data[pos + 3 : pos + 7], "big")
            seen.append(data[pos : pos + 7 + ln])
            pos += 7 + ln
        if sorted(seen) != sorted(lib_msgs):
            return f"with {p['lib_writers']} concurrent writers the peer did not receive exactly the written messages ({len(seen)} parsed, {len(lib_msgs)} written)"
        for wid in range(p["lib_writers"]):
            seqs = [int.from_bytes(m[1:3], "big") for m in seen if m[0] == 65 + wid]
            if seqs != sorted(seqs):
                return f"messages of writer {wid} arrived out of order: {seqs}"
        ctx.count("multi_writer_sessions")
    elif bytes(peer.plaintext_in) != peer_expect:
        return f"peer read {len(peer.plaintext_in)} bytes, library wrote {len(peer_expect)}"
    wire = a.wire_bytes()
    for w in _windows(lib_msgs):
        if w in wire:
            return f"plaintext window {w[:24]!r} found unencrypted in the bytes handed to the wrapped transport"
    ctx.count("bytes_checked", len(lib_expect) + len(peer_expect))
    if p["lib_recv_cap"] == 1:
        ctx.count("handshake_1_byte_fragments")
    if p.get("capacity"):
        ctx.count("bounded_pipe_sessions")
        if p.get("peer_sequential"):
            ctx.count("bounded_pipe_sequential_peer")
    if a.both_in_flight:
        ctx.count("both_directions_suspended")
    if p["lib_recv_cap"] and p["lib_recv_cap"] <= 8:
        ctx.count("record_split_3plus_reads")
    if any(s > 16384 for s in p["lib_sizes"] + p["peer_sizes"]):
        ctx.count("multi_record_writes")
    return None


class _PeerWorld(vselect.World):
    def __init__(self, clock, peer, frag):
        super().__init__(clock)
        self.peer = peer
        self.frag = frag

    def on_select(self, fileno, event, timeout):
        if event == _real_selectors.EVENT_WRITE:
            self.peer.pump(self.frag)
            return True
        wrote = self.peer.pump(self.frag)
        if wrote or self.peer.out_queue or self.peer.peer_eof:
            self.clock.advance(0.001)
            return True
        if timeout is None:
            raise _Stall("the peer has nothing to send and the library waits for ever")
        self.clock.advance(timeout)
        return False


class _Stall(BaseException):
    pass


def sync_session(ctx, rng: random.Random, version: str, lib_server: bool, p: dict) -> str | None:
    lsock, psock = netutil.tcp_pair()
    lib_msgs = [_payload(rng, f"L{i}", s) for i, s in enumerate(p["lib_sizes"])]
    peer_msgs = [_payload(rng, f"P{i}", s) for i, s in enumerate(p["peer_sizes"])]
    steps: list = [("handshake",)]
    total_l = 0
    rounds = max(len(lib_msgs), len(peer_msgs))
    for i in range(rounds):
        if i < len(lib_msgs):
            total_l += len(lib_msgs[i])
            steps.append(("read_n", total_l))
        if i < len(peer_msgs):
            steps.append(("write", peer_msgs[i]))
    steps += [("read",), ("unwrap",)]
    peer = tlspeer.PumpedPeer(psock, tlspeer.client_context(version) if lib_server else tlspeer.server_context(version), server_side=not lib_server, steps=steps)
    clock = vselect.VirtualClock()
    world = _PeerWorld(clock, peer, p["peer_frag"])
    why = None
    got = bytearray()
    try:
        with vselect.virtual_time(clock):
            try:
                with cpu_guard(40):
                    t = SSLStreamTransport(lsock, tlspeer.server_context(version) if lib_server else tlspeer.client_context(version), retry_interval=1.0, server_side=lib_server, server_hostname=None if lib_server else "localhost", handshake_timeout=600, shutdown_timeout=5, selector_factory=vselect.selector_factory(world))
                    for i in range(rounds):
                        if i < len(lib_msgs):
                            if p["lib_iterable"]:
                                t.send_all_from_iterable([lib_msgs[i][:1], b"", lib_msgs[i][1:]], 600)
                            else:
                                t.send_all(lib_msgs[i], 600)
                        if i < len(peer_msgs):
                            want = len(got) + len(peer_msgs[i])
                            while len(got) < want:
                                if p["reader"] == "recv":
                                    d = t.recv(rng.choice(p["read_sizes"]), 600)
                                else:
                                    buf = bytearray(rng.choice(p["read_sizes"]))
                                    n = t.recv_into(buf, 600)
                                    d = bytes(buf[:n])
                                if not d:
                                    why = f"library read end-of-stream after {len(got)} bytes"
                                    break
                                got += d
                        if why:
                            break
                    if not why:
                        t.close()
                        peer.pump()
                        peer.pump()
            except _Stall as exc:
                why = f"deadlock: {exc}"
            except HangDetected as exc:
                why = f"hang: {exc}"
            except (ssl.SSLError, OSError) as exc:
                why = f"session failed: {type(exc).__name__}: {exc}"
    finally:
        for s_ in (lsock, psock):
            try:
                s_.close()
            except OSError:
                pass
    if why:
        return why
    if bytes(got) != b"".join(peer_msgs):
        return f"library read {len(got)} bytes that differ from what the peer wrote ({sum(map(len, peer_msgs))})"
    if bytes(peer.plaintext_in) != b"".join(lib_msgs):
        return f"peer read {len(peer.plaintext_in)} bytes, library wrote {sum(map(len, lib_msgs))}"
    ctx.count("bytes_checked", len(got) + len(peer.plaintext_in))
    if any(s > 16384 for s in p["lib_sizes"] + p["peer_sizes"]):
        ctx.count("multi_record_writes")
    return None


def highlevel_server_session(ctx, rng: random.Random, version: str, std: bool) -> str | None:
    """the TLS byte stream as the user of the high-level server sees it: a handler writes a large response and ends without closing
    the client itself (returns before its first yield, or raises), the server tears the connection down; a peer with a tiny receive
    window that starts reading late must still read exactly the bytes written, then the end of the stream"""
    import asyncio
    import socket as _socket

    from easynetwork.protocol import StreamProtocol
    from easynetwork.serializers import StringLineSerializer
    from easynetwork.servers.async_tcp import AsyncTCPNetworkServer
    from easynetwork.servers.handlers import AsyncStreamRequestHandler

    size = rng.choice([50_000, 300_000])
    payload = ("%06d" % size + "y" * size)
    how = rng.choice(["return-before-yield", "raise-after-send", "yield-then-peer-closes"])
    out: dict = {}

    class H(AsyncStreamRequestHandler):
        async def handle(self, client):
            await client.send_packet(payload)
            if how == "raise-after-send":
                raise RuntimeError("handler failure after the response was sent")
            if how == "yield-then-peer-closes":
                yield
            return

    class _Up:
        def __init__(self):
            self.ev = asyncio.Event()

        def set(self):
            self.ev.set()

    async def main(loop):
        import logging

        lg = logging.getLogger("verif.c08")
        lg.propagate = False
        lg.handlers[:] = [logging.NullHandler()]
        backend = AsyncIOBackend()
        server = AsyncTCPNetworkServer(netutil.rand_loopback(), 0, StreamProtocol(StringLineSerializer(limit=1_000_000)), H(), backend, ssl=tlspeer.server_context(version), ssl_handshake_timeout=10, ssl_shutdown_timeout=5, ssl_standard_compatible=std, logger=lg)
        up = _Up()
        st = asyncio.ensure_future(server.serve_forever(is_up_event=up))
        await asyncio.wait_for(up.ev.wait(), 30)
        a = server.get_addresses()[0]
        s = _socket.socket()
        s.setsockopt(_socket.SOL_SOCKET, _socket.SO_RCVBUF, 4096)
        s.bind((netutil.rand_loopback(), 0))
        s.setblocking(False)
        await asyncio.get_running_loop().sock_connect(s, (a.host, a.port))

        class _SockT:
            async def send_all(self_inner, data):
                await asyncio.get_running_loop().sock_sendall(s, data)

            async def recv_into(self_inner, buf):
                try:
                    return await asyncio.get_running_loop().sock_recv_into(s, buf)
                except ConnectionResetError:
                    out["reset"] = True
                    return 0
                except OSError:
                    return 0

        peer = tlspeer.AsyncPeer(_SockT(), tlspeer.client_context(version), server_side=False)
        await peer.handshake()
        await asyncio.sleep(1.0)  # the peer is busy elsewhere: the whole response sits in the server's send path
        nwant = len(payload) + 1
        loop.io_expected = lambda: not out.get("done") and len(peer.plaintext_in) < nwant  # a reader is draining the socket
        try:
            out["end"] = await asyncio.wait_for(peer.read_until_end(), 120)
        except (ssl.SSLError, OSError, asyncio.TimeoutError) as exc:
            out["end"] = f"error:{type(exc).__name__}"
        out["done"] = True
        loop.io_expected = None
        out["plaintext"] = bytes(peer.plaintext_in)
        s.close()
        await server.shutdown()
        await server.server_close()
        await asyncio.gather(st, return_exceptions=True)

    try:
        vloop.run(main)
    except vloop.Quiescent as exc:
        return f"deadlock: {exc}"
    except Exception as exc:  # noqa: BLE001
        return f"unexpected {type(exc).__name__}: {exc}"
    want = payload.encode() + b"\n"
    got = out.get("plaintext", b"")
    ctx.count("highlevel_server_sessions")
    if got != want:
        return f"high-level TLS server (standard_compatible={std}, handler '{how}'): the peer read {len(got)} of the {len(want)} bytes the handler had sent before the server closed the connection" + (" (connection reset)" if out.get("reset") else "")
    return None


def endpoint_session(ctx, rng: random.Random, version: str, lib_server: bool) -> str | None:
    """the byte stream as the user of a packet endpoint over TLS sees it, with the operations TLS refuses or that fail without
    touching the stream interleaved with the writes: send_eof() (TLS has no half-close: UnsupportedOperation, nothing written),
    a receive that times out, a zero-length write. The connection stays a transparent stream afterwards: every packet handed to
    send_packet() before and after reaches the peer, in order, and the peer's packets are all received"""
    from easynetwork.exceptions import UnsupportedOperation
    from easynetwork.lowlevel.api_async.endpoints.stream import AsyncStreamEndpoint
    from easynetwork.protocol import BufferedStreamProtocol, StreamProtocol
    from easynetwork.serializers import StringLineSerializer

    n = rng.randint(3, 8)
    lib_packets = [f"L{i}:{rng.getrandbits(64):016x}:" + "x" * rng.choice([0, 10, 3000, 20000]) for i in range(n)]
    peer_packets = [f"P{i}:{rng.getrandbits(64):016x}:" + "y" * rng.choice([0, 10, 3000]) for i in range(rng.randint(1, 4))]
    side_ops = {k: rng.choice(["send_eof", "send_eof", "recv-timeout", "send_eof-twice", None]) for k in range(n)}
    if not any(v and v.startswith("send_eof") for v in side_ops.values()):
        side_ops[rng.randrange(n - 1)] = "send_eof"
    buffered = rng.random() < 0.5
    state: dict[str, Any] = {"why": None, "sent": [], "phase": "handshake", "refused": 0}

    async def main(loop):
        backend = AsyncIOBackend()
        a, b = memtransport.stream_pair(backend)
        a.recv_cap = rng.choice([1, 64, None])
        a.send_frag = rng.choice([7, 1000, None])
        peer = tlspeer.AsyncPeer(b, tlspeer.client_context(version) if lib_server else tlspeer.server_context(version), server_side=not lib_server)
        state["peer"] = peer
        state["a"] = a

        async def peer_side():
            await peer.handshake()
            for m in peer_packets:
                await peer.write(m.encode() + b"\n")
            await peer.drain()

        pt = asyncio.ensure_future(peer_side())
        ctxl = tlspeer.server_context(version) if lib_server else tlspeer.client_context(version)
        t = await AsyncTLSStreamTransport.wrap(a, ctxl, server_side=lib_server, server_hostname=None if lib_server else "localhost", handshake_timeout=1e6, shutdown_timeout=1e6)
        ser = StringLineSerializer(limit=100_000)
        ep = AsyncStreamEndpoint(t, BufferedStreamProtocol(ser) if buffered else StreamProtocol(ser), max_recv_size=rng.choice([100, 65536]))
        state["phase"] = "transfer"
        early: list = []
        for k, pkt in enumerate(lib_packets):
            op = side_ops[k]
            if op and op.startswith("send_eof"):
                for _ in range(2 if op.endswith("twice") else 1):
                    try:
                        await ep.send_eof()
                    except UnsupportedOperation:
                        state["refused"] += 1
                    else:
                        state["why"] = "send_eof() on a TLS connection returned normally although TLS cannot half-close the stream"
                        return
            elif op == "recv-timeout":
                with backend.move_on_after(rng.choice([0, 0.01])):
                    early.append(await ep.recv_packet())
            try:
                await ep.send_packet(pkt)
            except Exception as exc:  # noqa: BLE001
                state["why"] = f"send_packet #{k} failed with {type(exc).__name__}: {exc} after {state['refused']} refused send_eof(): the bytes never reach the peer"
                return
            state["sent"].append(pkt)
        got = early
        while len(got) < len(peer_packets):
            try:
                got.append(await ep.recv_packet())
            except Exception as exc:  # noqa: BLE001
                state["why"] = f"recv_packet failed with {type(exc).__name__}: {exc} after {len(got)} of the peer's {len(peer_packets)} packets"
                return
        if got != peer_packets:
            state["why"] = "the endpoint did not receive exactly the peer's packets"
            return
        await pt
        want = "".join(m + "\n" for m in lib_packets).encode()
        while len(peer.plaintext_in) < len(want):
            if not await peer.read_some(65536):
                break
        state["phase"] = "close"
        closer = asyncio.ensure_future(ep.aclose())
        await peer.read_until_end()
        await peer.unwrap()
        await closer
        state["phase"] = "done"

    try:
        vloop.run(main)
    except vloop.Quiescent as exc:
        return f"deadlock in phase {state['phase']}: {exc}"
    except (ssl.SSLError, OSError) as exc:
        return f"session failed in phase {state['phase']}: {type(exc).__name__}: {exc}"
    if state["why"]:
        return state["why"]
    want = "".join(m + "\n" for m in lib_packets).encode()
    if bytes(state["peer"].plaintext_in) != want:
        return f"the peer read {len(state['peer'].plaintext_in)} bytes, the endpoint's send_packet() calls wrote {len(want)}"
    wire = state["a"].wire_bytes()
    for m in lib_packets:
        if m[:20].encode() in wire:
            return f"packet token {m[:20]!r} found unencrypted in the bytes handed to the wrapped transport"
    ctx.count("endpoint_sessions")
    ctx.count("endpoint_refused_send_eof", state["refused"])
    return None


def real_socket_backlog_session(ctx, rng: random.Random, version: str) -> str | None:
    """AsyncTLSStreamTransport over the real asyncio socket adapter (read flow control included): the peer writes 0.4-1 MiB while the
    library side is busy elsewhere, so the adapter's protocol fills its buffer and pauses reading; the library side then reads with
    buffers as large as that backlog. Every byte must arrive; nothing may fail or stall."""
    import asyncio

    size = rng.choice([400_000, 1_000_000])
    readbuf = rng.choice([262_144, 262_144, 65_536, 1_000_000])
    data = bytes((i * 13 + 5) % 251 for i in range(4096)) * (size // 4096 + 1)
    data = data[:size]
    out: dict = {"got": bytearray()}

    async def main(loop):
        backend = AsyncIOBackend()
        c, s = netutil.tcp_pair()
        s.setblocking(False)

        class _SockT:
            async def send_all(self_inner, d):
                await asyncio.get_running_loop().sock_sendall(s, d)

            async def recv_into(self_inner, buf):
                try:
                    return await asyncio.get_running_loop().sock_recv_into(s, buf)
                except OSError:
                    return 0

        peer = tlspeer.AsyncPeer(_SockT(), tlspeer.server_context(version), server_side=True)
        hs = asyncio.ensure_future(peer.handshake())
        tr = await backend.wrap_stream_socket(c)
        t = await AsyncTLSStreamTransport.wrap(tr, tlspeer.client_context(version), server_hostname="localhost", handshake_timeout=1e6, shutdown_timeout=1)
        await hs
        await peer.drain()
        wt = asyncio.ensure_future(peer.write(data))
        loop.io_expected = lambda: not wt.done() and not out.get("reading")  # the peer is pushing bytes into the kernel / the adapter
        for _ in range(40):
            await asyncio.sleep(0.0125)  # busy elsewhere for half a (virtual) second, in small steps so that the backlog can build up
        out["reading"] = True
        loop.io_expected = lambda: len(out["got"]) < size
        try:
            while len(out["got"]) < size:
                buf = bytearray(readbuf)
                n = await asyncio.wait_for(t.recv_into(buf), 120)
                if not n:
                    break
                out["got"] += buf[:n]
        except BaseException as exc:  # noqa: BLE001
            if isinstance(exc, (asyncio.CancelledError, vloop.Quiescent)):
                raise
            out["error"] = f"{type(exc).__name__}: {exc}"
        loop.io_expected = None
        wt.cancel()
        await asyncio.gather(wt, return_exceptions=True)
        try:
            await tr.aclose()
        except Exception:  # noqa: BLE001
            pass
        s.close()

    try:
        vloop.run(main)
    except vloop.Quiescent as exc:
        return f"deadlock: {exc} after {len(out['got'])} of {size} bytes"
    except Exception as exc:  # noqa: BLE001
        return f"unexpected {type(exc).__name__}: {exc}"
    ctx.count("real_socket_backlog_sessions")
    if out.get("error"):
        return f"real socket adapter, {size} bytes written while the reader was busy, then read with {readbuf}-byte buffers: recv_into failed with {out['error']} after {len(out['got'])} bytes"
    if bytes(out["got"]) != data:
        return f"real socket adapter backlog: received {len(out['got'])} of {size} bytes / content differs"
    return None


def gen_params(rng: random.Random, heavy: bool) -> dict:
    def sizes():
        n = rng.randint(1, 4)
        pool = SIZES if heavy else [1, 2, 100, 1000, 3000]
        return [rng.choice(pool) for _ in range(n)]

    small = rng.random() < 0.5
    p = {
        "lib_sizes": sizes(),
        "peer_sizes": sizes(),
        "lib_recv_cap": rng.choice([1, 2, 5, 8, 64, None]) if small else rng.choice([64, 1024, None]),
        "lib_send_frag": rng.choice([1, 7, 100, None]) if small else rng.choice([1000, None]),
        "lib_send_yield": rng.choice([0, 1, 3]),
        "lib_send_sleep": rng.choice([0, 0, 0.5]),
        "peer_recv_cap": rng.choice([1, 16, None]) if small else None,
        "peer_frag": rng.choice([1, 3, 50, None]) if small else rng.choice([1000, None]),
        "peer_pause": rng.choice([0, 0, 0.5]),
        "lib_pause": rng.choice([0, 0, 0.5]),
        "peer_read": rng.choice([1, 100, 65536]),
        "reader": rng.choice(["recv", "recv_into"]),
        "read_sizes": rng.choice([[1], [1, 7, 100], [4096], [16384, 65536]]),
        "lib_iterable": rng.random() < 0.3,
        "capacity": rng.choice([None, None, 4096, 16384]),
        "peer_sequential": False,
        "lib_writers": rng.choice([1, 1, 2, 3]),
    }
    if rng.random() < 0.25:
        # a peer that writes everything before it reads, over bounded pipes that hold at least a whole handshake flight
        # (smaller pipes would dead-lock inside wrap(), before the application can start its reader: not the library's doing);
        # both sides send far more than the pipes hold, so only the library's concurrent reader can unblock the peer
        p["peer_sequential"] = True
        p["capacity"] = rng.choice([4096, 16384])
        p["lib_sizes"] = [rng.choice([16384, 50000])] + p["lib_sizes"][:2]
        p["peer_sizes"] = [rng.choice([16385, 50000])] + p["peer_sizes"][:2]
        p["lib_recv_cap"] = rng.choice([512, 4096, None])
        p["lib_send_frag"] = rng.choice([1000, None])
        p["peer_frag"] = rng.choice([777, None])
        p["peer_recv_cap"] = None
        p["read_sizes"] = rng.choice([[4096], [16384, 65536]])
        p["peer_read"] = 65536
        p["lib_send_sleep"] = 0
    if p["lib_send_frag"] is not None and p["lib_send_frag"] < 100:
        p["lib_send_sleep"] = 0  # a virtual delay per 1-byte fragment would only burn virtual hours
    return p


def plan(tier: str, seed: int) -> list[dict]:
    n = 60 if tier == "quick" else 1500
    return [{"seed": seed * 1000 + k, "sessions": n} for k in range(16)]


def run_shard(params: dict, ctx) -> None:
    rng = random.Random(params["seed"])
    for i in range(params["sessions"]):
        if ctx.should_stop(40):
            return
        version = rng.choice(["1.2", "1.3"])
        lib_server = rng.random() < 0.5
        heavy = i % 5 == 0
        p = gen_params(rng, heavy)
        if heavy and not p["peer_sequential"]:
            # keep 1-byte fragmentation for small sessions only (cost), but do fragment big ones moderately
            p["lib_recv_cap"] = rng.choice([512, 4096, None])
            p["lib_send_frag"] = rng.choice([1000, 16384, None])
            p["peer_frag"] = rng.choice([777, 16384, None])
            p["peer_recv_cap"] = None
            p["read_sizes"] = rng.choice([[4096], [16384, 65536], [100, 70000]])
            p["peer_read"] = 65536
        kind = "sync" if i % 3 == 2 else "async"
        ctx.count("tls" + version)
        nontrivial = bool(p["lib_sizes"] and p["peer_sizes"]) and ((p["lib_recv_cap"] or 10**9) < 64 or (p["peer_frag"] or 10**9) < 64 or p["lib_send_yield"] > 0)
        ctx.case(nontrivial, kind, version, lib_server, repr(sorted(p.items())))
        if kind == "async":
            ctx.count("sessions_async_server_role" if lib_server else "sessions_async_client_role")
            why = async_session(ctx, rng, version, lib_server, p)
        else:
            ctx.count("sessions_sync")
            why = sync_session(ctx, rng, version, lib_server, p)
        if why:
            cat = "deadlock" if "deadlock" in why or "hang" in why else "plaintext-leak" if "unencrypted" in why else "byte-stream"
            ctx.violation(f"{cat}:{kind}", f"[{kind} TLS{version} lib_server={lib_server}] {why}", {"kind": kind, "version": version, "lib_server": lib_server, "params": p, "seed": params["seed"], "index": i})
        if i % 10 == 5:
            why3 = real_socket_backlog_session(ctx, rng, version)
            ctx.case(True, "real-socket-backlog", version, params["seed"], i)
            if why3:
                ctx.violation("byte-stream:real-socket-backlog" if "deadlock" not in why3 else "deadlock:real-socket-backlog", f"[TLS{version} over the asyncio socket adapter] {why3}", {"kind": "real-socket-backlog", "version": version, "lib_server": False, "params": {}, "seed": params["seed"], "index": i})
        if i % 6 == 1:
            ls = rng.random() < 0.5
            why4 = endpoint_session(ctx, rng, version, ls)
            ctx.case(True, "endpoint", version, ls, params["seed"], i)
            if why4:
                ctx.violation("byte-stream:endpoint" if "deadlock" not in why4 else "deadlock:endpoint", f"[AsyncStreamEndpoint over TLS{version} lib_server={ls}] {why4}", {"kind": "endpoint", "version": version, "lib_server": ls, "params": {}, "seed": params["seed"], "index": i})
        if i % 10 == 0:
            std = rng.random() < 0.5
            why2 = highlevel_server_session(ctx, rng, version, std)
            ctx.case(True, "highlevel-server", version, std, params["seed"], i)
            if why2:
                ctx.violation("byte-stream:highlevel-server", f"[AsyncTCPNetworkServer TLS{version}] {why2}", {"kind": "highlevel-server", "version": version, "lib_server": True, "params": {}, "seed": params["seed"], "index": i})
        if i == 0:
            ctx.sample({"kind": kind, "tls": version, "library_is_server": lib_server, **p})


def replay(witness: dict, ctx) -> None:
    # sessions depend on the PRNG stream of their shard: re-run the shard prefix
    run_shard({"seed": witness["seed"], "sessions": witness["index"] + 1}, ctx)
