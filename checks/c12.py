"""C12 — concurrent senders never interleave packets.

Monitor: N concurrent senders (tasks or threads) each send M packets carrying (sender, seq) padded to sizes that force the
transport to suspend / write partially; the wire (in-memory transport log, or the bytes read by a raw peer) is parsed with
the same serializer. Oracle: the wire parses into packets each equal to one sent packet, every successful send exactly once,
per-sender sequence numbers increasing; at client level no call fails. FairLock: mutual exclusion and first-come-first-served
among non-cancelled waiters.
"""

from __future__ import annotations

import asyncio
import json
import random
import socket
import threading
import time
from typing import Any

from easynetwork.exceptions import BusyResourceError
from easynetwork.lowlevel.api_async.backend._asyncio.backend import AsyncIOBackend
from easynetwork.lowlevel.api_async.backend._common.fair_lock import FairLock
from easynetwork.lowlevel.api_async.endpoints.stream import AsyncStreamEndpoint
from easynetwork.lowlevel.api_async.servers.stream import ConnectedStreamClient
from easynetwork.lowlevel._stream import StreamDataProducer
from easynetwork.protocol import DatagramProtocol, StreamProtocol
from easynetwork.serializers import JSONSerializer

from vlib import netutil  # noqa: E402
from vlib import drive, memtransport, tlspeer, vloop, yieldinject

PROPERTY = "C12"
LEVEL = "exploration"
RULE = (
    "case = (target in {AsyncStreamEndpoint, AsyncTCPNetworkClient, server-side client object, AsyncTLSStreamTransport, FairLock, "
    "TCPNetworkClient threads, UDPNetworkClient threads}, N senders x M packets, payload sizes, fragment size / suspension points of "
    "the transport, cancellations of waiting senders, injected thread switches). non-trivial = at least one sender was suspended "
    "mid-packet while another sender called send_packet (measured by the transport), or >= 2 threads overlapped in time; distinct = "
    "distinct (target, parameters, seed)"
)
ASSUMPTIONS = [
    "AsyncTCPNetworkClient and the server-side client are given an in-memory transport through AsyncBackend.wrap_stream_socket / the low-level API (typed attributes of a real dummy socket) so that the transport can suspend mid-packet; asyncio's own socket transport writes atomically and cannot show interleaving",
    "thread runs use real loopback sockets with a 4 KiB send buffer and a slow reader, plus sys.monitoring yield injection inside easynetwork code",
]
REQUIRED = [
    "target:endpoint",
    "target:async-client",
    "target:server-client",
    "target:tls",
    "target:fairlock",
    "target:tcp-threads",
    "target:udp-threads",
    "target:tcp-directed-preemption",
    "sender_timed_out_waiting_for_the_send_lock",
    "state_queries_during_blocked_send",
    "directed_pause_points_reached",
    "sender_suspended_while_other_called",
    "busy_errors_observed",
    "packets_checked",
    "fairlock_cancelled_waiters",
    "thread_switches_injected",
]
WATCHDOG = {"quick": 1200, "thorough": 7200}


def _packet(sender: int, seq: int, size: int) -> dict:
    return {"s": sender, "q": seq, "pad": "x" * size}


def parse_wire(wire: bytes) -> tuple[list, str | None]:
    proto = StreamProtocol(JSONSerializer(limit=10_000_000))  # the harness parser must not be the one that rejects a big packet
    try:
        out, left = drive.drive_copy(proto, [wire] if wire else [])
    except Exception as exc:  # noqa: BLE001
        return [], f"wire does not parse: {type(exc).__name__}: {exc}"
    pk = []
    for o in out:
        if o[0] != "P":
            return pk, f"wire contains an undecodable frame ({o!r}) after {len(pk)} packets: packets were interleaved or corrupted"
        pk.append(o[1])
    if left:
        return pk, f"{len(left)} trailing bytes on the wire do not form a packet"
    return pk, None


def judge(sent_ok: list[tuple[int, int, int]], wire_packets: list, must_all: bool) -> str | None:
    exp = {(s, q): size for s, q, size in sent_ok}
    seen: set = set()
    last: dict[int, int] = {}
    for p in wire_packets:
        if not isinstance(p, dict) or set(p) != {"s", "q", "pad"}:
            return f"wire packet {str(p)[:60]!r} is not a sent packet"
        key = (p["s"], p["q"])
        if key in seen:
            return f"packet {key} appears twice on the wire"
        seen.add(key)
        if key in exp and len(p["pad"]) != exp[key]:
            return f"packet {key} has a payload of {len(p['pad'])} instead of {exp[key]}"
        if p["q"] <= last.get(p["s"], -1):
            return f"packets of sender {p['s']} are out of order on the wire ({last[p['s']]} before {p['q']})"
        last[p["s"]] = p["q"]
    missing = [k for k in exp if k not in seen]
    if missing:
        return f"{len(missing)} successfully sent packets never reached the wire, e.g. {missing[:3]}"
    return None


# ------------------------------------------------------------------------------------------ async targets


class MemBackend(AsyncIOBackend):
    def __init__(self, factory) -> None:
        super().__init__()
        self._factory = factory

    async def wrap_stream_socket(self, sock):
        sock.setblocking(False)
        return self._factory(sock)


def _dummy_pair():
    return netutil.tcp_pair(nodelay=False)


def async_target(ctx, target: str, rng: random.Random) -> str | None:
    N = rng.randint(2, 8)
    M = rng.randint(1, 5)
    frag = rng.choice([1, 7, 64, 1000])
    syield = rng.choice([0, 1, 2])
    ssleep = rng.choice([0, 0, 0.5])
    sizes = [rng.choice([0, 10, 300, 5000]) for _ in range(N)]
    # cancelling a sender is exercised on the lock-based targets only: over TLS a sender cancelled in the middle of writing a
    # record to the wrapped transport leaves a truncated record behind, which no later sender can repair (inherent to TLS)
    cancel_some = rng.random() < 0.3 and target not in ("endpoint", "tls")
    results: list = []
    holder: dict = {}

    async def main(loop):
        c = s = None
        backend: Any = AsyncIOBackend()
        proto = StreamProtocol(JSONSerializer())
        if target == "tls":
            a, b = memtransport.stream_pair(backend)
            a.send_frag, a.send_yield, a.send_sleep = frag, syield, ssleep
            peer = tlspeer.AsyncPeer(b, tlspeer.server_context("1.3"), server_side=True)
            holder["peer"] = peer
            hs = asyncio.ensure_future(peer.handshake())
            from easynetwork.lowlevel.api_async.transports.tls import AsyncTLSStreamTransport

            t = await AsyncTLSStreamTransport.wrap(a, tlspeer.client_context("1.3"), server_hostname="localhost", handshake_timeout=1e6, shutdown_timeout=1e6)
            await hs
            holder["mem"] = a
            prod = StreamDataProducer(proto)
            # back-pressure (bounded pipe towards the peer) and a concurrent reader on the library side: the reader's
            # WANT_READ path flushes pending ciphertext too, and must do so under the same discipline as the senders
            if rng.random() < 0.6:
                a.outgoing.capacity = rng.choice([512, 4096])
            lib_got = bytearray()

            async def lib_reader():
                try:
                    while True:
                        d = await t.recv(4096)
                        if not d:
                            return
                        lib_got.extend(d)
                except Exception as exc:  # noqa: BLE001
                    holder["reader_error"] = f"{type(exc).__name__}: {exc}"

            use_reader = rng.random() < 0.7
            peer_reader = asyncio.ensure_future(peer.read_until_end())
            lr = asyncio.ensure_future(lib_reader()) if use_reader else None
            trickle = None
            if use_reader and rng.random() < 0.7:
                # the peer keeps sending small messages, so the library's reader keeps cycling through its WANT_READ path
                # (which also flushes pending ciphertext) while the senders are suspended in the wrapped transport
                async def trickler():
                    try:
                        for i in range(200):
                            await peer.write(b"t%03d" % i)
                            await asyncio.sleep(0)
                    except Exception:  # noqa: BLE001
                        pass

                trickle = asyncio.ensure_future(trickler())
            holder["trickle"] = trickle

            async def send(pkt):
                await t.send_all_from_iterable(prod.generate(pkt))

            async def finish():
                if holder.get("trickle") is not None:
                    holder["trickle"].cancel()
                    await asyncio.gather(holder["trickle"], return_exceptions=True)
                if lr is not None:
                    lr.cancel()
                    await asyncio.gather(lr, return_exceptions=True)
                await t.aclose()
                await peer.unwrap()
                holder["peer_end"] = await peer_reader
                holder["wire"] = bytes(peer.plaintext_in)

        else:
            c, s = _dummy_pair()
            mem = memtransport.MemStreamTransport(backend)
            mem.use_socket_extras(c)
            mem.send_frag, mem.send_yield, mem.send_sleep = frag, syield, ssleep
            holder["mem"] = mem
            if target == "endpoint":
                ep = AsyncStreamEndpoint(mem, proto, max_recv_size=1024)
                send = ep.send_packet
                closer = ep.aclose
            elif target == "async-client":
                from easynetwork.clients.async_tcp import AsyncTCPNetworkClient

                backend = MemBackend(lambda sock: mem)
                mem._backend = backend
                cli = AsyncTCPNetworkClient(c, proto, backend)
                await cli.wait_connected()
                send = cli.send_packet
                closer = cli.aclose
            else:
                from easynetwork.lowlevel.socket import new_socket_address
                from easynetwork.servers.async_tcp import _ConnectedClientAPI

                low = ConnectedStreamClient(_transport=mem, _producer=StreamDataProducer(proto))
                api = _ConnectedClientAPI(new_socket_address(c.getpeername(), c.family), low)
                send = api.send_packet
                closer = api.aclose

            async def finish():
                await closer()
                holder["wire"] = mem.wire_bytes()

        async def sender(i: int):
            for q in range(M):
                pkt = _packet(i, q, sizes[i])
                try:
                    await send(pkt)
                    results.append((i, q, sizes[i], "ok"))
                except BusyResourceError:
                    results.append((i, q, sizes[i], "busy"))
                    await asyncio.sleep(0)
                except asyncio.CancelledError:
                    results.append((i, q, sizes[i], "cancelled"))
                    raise
                except Exception as exc:  # noqa: BLE001
                    results.append((i, q, sizes[i], f"error:{type(exc).__name__}: {exc}"))
                if rng.random() < 0.3:
                    await asyncio.sleep(0)

        tasks = [asyncio.ensure_future(sender(i)) for i in range(N)]
        if cancel_some:
            # cancel one sender while it is (most likely) queued behind the others
            await asyncio.sleep(0)
            await asyncio.sleep(0)
            victim = tasks[rng.randrange(1, N)]
            victim.cancel()
        await asyncio.gather(*tasks, return_exceptions=True)
        await finish()
        for x in (c, s):
            if x is not None:
                x.close()

    try:
        vloop.run(main)
    except vloop.Quiescent as exc:
        return f"deadlock: {exc}"
    mem = holder["mem"]
    if target == "tls" and str(holder.get("peer_end", "clean")).startswith("error"):
        return f"the peer's TLS stream broke ({holder['peer_end']}: {getattr(holder.get('peer'), 'read_error', None)}): records were interleaved or reordered on the wire"
    if mem.overlap_attempts and target != "tls":
        return f"the transport saw {mem.overlap_attempts} send_all calls enter while another one was suspended in it (senders were not serialized)"
    wire_packets, why = parse_wire(holder.get("wire", b""))
    if why:
        return why
    ok = [(i, q, sz) for i, q, sz, r in results if r == "ok"]
    errors = [r for *_x, r in results if r.startswith("error")]
    busy = [r for *_x, r in results if r == "busy"]
    cancelled = [(i, q) for i, q, sz, r in results if r == "cancelled"]
    if busy:
        ctx.count("busy_errors_observed", len(busy))
        if target != "endpoint":
            return f"{len(busy)} calls failed with BusyResourceError on a {target}"
    if errors:
        return f"send_packet failed: {errors[0]}"
    # a cancelled send may or may not have reached the wire (partially written packets of a cancelled sender are its own
    # problem), but every packet on the wire must be whole and belong to someone
    allowed_extra = set(cancelled)
    why = judge(ok, [p for p in wire_packets if (p.get("s"), p.get("q")) not in allowed_extra] if cancelled else wire_packets, True)
    if why:
        return why
    ctx.count("packets_checked", len(wire_packets))
    if mem.max_in_send <= 1 and (frag < 5000 or syield or ssleep) and N >= 2:
        ctx.count("sender_suspended_while_other_called")
    return None


def fairlock_case(ctx, rng: random.Random) -> str | None:
    N = rng.randint(2, 7)
    log: list = []
    cancelled: set = set()

    async def main(loop):
        backend = AsyncIOBackend()
        lock = FairLock(backend)
        holders = 0

        async def worker(i: int, hold: int):
            nonlocal holders
            log.append(("arrive", i))
            try:
                async with lock:
                    holders += 1
                    try:
                        log.append(("acquire", i, holders))
                        for _ in range(hold):
                            await asyncio.sleep(0)
                    finally:
                        holders -= 1
                    log.append(("release", i))
            except asyncio.CancelledError:
                log.append(("cancelled", i))
                raise

        tasks = []
        for i in range(N):
            tasks.append(asyncio.ensure_future(worker(i, rng.randint(0, 3))))
            if rng.random() < 0.5:
                await asyncio.sleep(0)
        for _ in range(rng.randint(0, 3)):
            await asyncio.sleep(0)
        for i in rng.sample(range(N), rng.randint(0, max(0, N - 1))):
            if rng.random() < 0.4 and not tasks[i].done():
                tasks[i].cancel()
                cancelled.add(i)
                if rng.random() < 0.5:
                    await asyncio.sleep(0)
        await asyncio.gather(*tasks, return_exceptions=True)
        if lock.locked():
            log.append(("still-locked",))

    try:
        vloop.run(main)
    except vloop.Quiescent as exc:
        return f"deadlock: {exc} (log {log[-6:]})"
    if cancelled:
        ctx.count("fairlock_cancelled_waiters", len(cancelled))
    if ("still-locked",) in log:
        return "lock still held after every task finished"
    for e in log:
        if e[0] == "acquire" and e[2] != 1:
            return f"two holders at once: {e}"
    arrive = [e[1] for e in log if e[0] == "arrive"]
    acquired = [e[1] for e in log if e[0] == "acquire"]
    never = [i for i in arrive if i not in acquired and ("cancelled", i) not in log]
    if never:
        return f"tasks {never} never acquired the lock although they were not cancelled"
    # FIFO among tasks that acquired and were never cancelled
    order = [i for i in acquired if ("cancelled", i) not in log]
    exp = [i for i in arrive if i in order]
    if order != exp:
        return f"acquisition order {order} differs from arrival order {exp}"
    return None


# ------------------------------------------------------------------------------------------ threads


def tcp_threads_case(ctx, rng: random.Random, seed: int) -> str | None:
    from easynetwork.clients.tcp import TCPNetworkClient

    N = rng.randint(2, 5)
    M = rng.randint(2, 6)
    sizes = [rng.choice([10, 3000, 20000]) for _ in range(N)]
    c, s = _dummy_pair()
    c.setsockopt(socket.SOL_SOCKET, socket.SO_SNDBUF, 4096)
    s.setsockopt(socket.SOL_SOCKET, socket.SO_RCVBUF, 4096)
    client = TCPNetworkClient(c, StreamProtocol(JSONSerializer()), retry_interval=0.05)
    results: list = []
    wire = bytearray()
    stop = threading.Event()

    def reader():
        s.settimeout(0.2)
        while True:
            try:
                d = s.recv(rng.choice([100, 1000, 65536]))
            except TimeoutError:
                continue  # tiny windows stall for 200 ms at a time (persist timer): only end-of-stream ends the reader
            except OSError:
                return
            if not d:
                return
            wire.extend(d)
            if len(wire) % 7 == 0 and not stop.is_set():
                time.sleep(0.0005)

    def sender(i: int):
        for q in range(M):
            try:
                client.send_packet(_packet(i, q, sizes[i]), timeout=30)
                results.append((i, q, sizes[i], "ok"))
            except Exception as exc:  # noqa: BLE001
                results.append((i, q, sizes[i], f"error:{type(exc).__name__}: {exc}"))

    rt = threading.Thread(target=reader, daemon=True)
    rt.start()
    inj = yieldinject.YieldInjector(seed)
    with inj:
        ths = [threading.Thread(target=sender, args=(i,), daemon=True) for i in range(N)]
        for t in ths:
            t.start()
        deadline = time.monotonic() + 60
        for t in ths:
            t.join(max(0.1, deadline - time.monotonic()))
    stuck = [t for t in ths if t.is_alive()]
    stop.set()
    if not _close_bounded(client):
        s.close()
        if stuck:
            ctx.inconclusive_because(f"{len(stuck)} sender threads still running after the 60 s watchdog and close() is blocked behind them")
            return None
        errors = [r for *_x, r in results if r != "ok"]
        return f"client.close() did not return within 20 s after every sender thread had finished ({len(errors)} sends failed, first: {errors[:1]}): the send lock is still held by a call that has returned"
    rt.join(60)
    reader_stuck = rt.is_alive()
    s.close()
    ctx.count("thread_switches_injected", inj.switches)
    if reader_stuck:
        ctx.inconclusive_because("the raw reader thread did not reach end-of-stream within its 60 s watchdog")
        return None
    ctx.notes.setdefault("interleaving_hashes", [])
    if len(ctx.notes["interleaving_hashes"]) < 200:
        ctx.notes["interleaving_hashes"].append(inj.hash)
    if stuck:
        ctx.inconclusive_because(f"{len(stuck)} sender threads still running after the 60 s watchdog")
        return None
    errors = [r for *_x, r in results if r != "ok"]
    if errors:
        return f"send_packet failed in a thread: {errors[0]}"
    wire_packets, why = parse_wire(bytes(wire))
    if why:
        return why
    why = judge([(i, q, sz) for i, q, sz, r in results], wire_packets, True)
    if why:
        return why
    ctx.count("packets_checked", len(wire_packets))
    return None


def udp_threads_case(ctx, rng: random.Random, seed: int) -> str | None:
    from easynetwork.clients.udp import UDPNetworkClient

    N = rng.randint(2, 5)
    M = rng.randint(2, 8)
    a, b = netutil.udp_pair()
    b.setsockopt(socket.SOL_SOCKET, socket.SO_RCVBUF, 1 << 20)
    client = UDPNetworkClient(a, DatagramProtocol(JSONSerializer()), retry_interval=0.05)
    results: list = []

    def sender(i: int):
        for q in range(M):
            try:
                client.send_packet(_packet(i, q, 50 * i), timeout=30)
                results.append((i, q, 50 * i, "ok"))
            except Exception as exc:  # noqa: BLE001
                results.append((i, q, 50 * i, f"error:{type(exc).__name__}: {exc}"))

    inj = yieldinject.YieldInjector(seed + 1)
    with inj:
        ths = [threading.Thread(target=sender, args=(i,), daemon=True) for i in range(N)]
        for t in ths:
            t.start()
        deadline = time.monotonic() + 60
        for t in ths:
            t.join(max(0.1, deadline - time.monotonic()))
    stuck = [t for t in ths if t.is_alive()]
    if not _close_bounded(client) and not stuck:
        b.close()
        return "UDP client.close() did not return within 20 s after every sender thread had finished: the send lock is still held by a call that has returned"
    ctx.count("thread_switches_injected", inj.switches)
    if stuck:
        b.close()
        ctx.inconclusive_because(f"{len(stuck)} UDP sender threads still running after the 60 s watchdog")
        return None
    b.setblocking(False)
    got = []
    try:
        while True:
            got.append(b.recv(65536))
    except BlockingIOError:
        pass
    b.close()
    errors = [r for *_x, r in results if r != "ok"]
    if errors:
        return f"send_packet failed in a thread: {errors[0]}"
    pk = []
    for d in got:
        try:
            pk.append(json.loads(d))
        except ValueError:
            return f"datagram {d[:40]!r} is not one whole packet"
    if len(got) != N * M:
        ctx.inconclusive_because(f"kernel delivered {len(got)} of {N * M} datagrams")
        return None
    why = judge([(i, q, sz) for i, q, sz, r in results], pk, True)
    if why:
        return why
    ctx.count("packets_checked", len(pk))
    return None


def _send_path_funcs() -> list:
    from easynetwork.clients.tcp import TCPNetworkClient
    from easynetwork.lowlevel import _utils
    from easynetwork.lowlevel.api_sync.endpoints.stream import StreamEndpoint
    from easynetwork.lowlevel.api_sync.transports.base_selector import SelectorBaseTransport, SelectorStreamTransport
    from easynetwork.lowlevel.api_sync.transports.socket import SocketStreamTransport

    fs = [TCPNetworkClient.send_packet, StreamEndpoint.send_packet, SocketStreamTransport.send_all_from_iterable, SelectorStreamTransport.send, SelectorBaseTransport._retry]
    lw = getattr(_utils.lock_with_timeout, "__wrapped__", None)
    if lw is not None:
        fs.append(lw)
    return fs


def directed_points() -> list[tuple[str, int]]:
    from vlib import preempt

    return preempt.points(_send_path_funcs())


def tcp_directed_case(ctx, point: tuple[str, int], skip: int = 0) -> str | None:
    """one preemption: the thread sending packet A is paused before line `point` of the blocking send path while another thread sends
    packet B (bounded wait: B may legitimately block behind A's lock), then resumes. The wire must hold A and B whole."""
    from easynetwork.clients.tcp import TCPNetworkClient

    from vlib import preempt

    c, s = _dummy_pair()
    c.setsockopt(socket.SOL_SOCKET, socket.SO_SNDBUF, 16384)
    s.setsockopt(socket.SOL_SOCKET, socket.SO_RCVBUF, 16384)
    client = TCPNetworkClient(c, StreamProtocol(JSONSerializer()), retry_interval=0.05)
    results: list = []
    wire = bytearray()

    start_reading = threading.Event()

    def reader():
        # nobody reads until the preemption has happened (or 0.7 s): the paused sender is then really mid-packet, blocked on a full
        # socket buffer, and the lines inside the retry loops are reached again and again
        start_reading.wait(30)
        s.settimeout(0.2)
        while True:
            try:
                d = s.recv(65536)
            except TimeoutError:
                continue
            except OSError:
                return
            if not d:
                return
            wire.extend(d)

    def send(i: int, q: int, size: int):
        try:
            client.send_packet(_packet(i, q, size), timeout=30)
            results.append((i, q, size, "ok"))
        except Exception as exc:  # noqa: BLE001
            results.append((i, q, size, f"error:{type(exc).__name__}: {exc}"))

    other_done = threading.Event()
    other: list = []

    def at_pause():
        t = threading.Thread(target=lambda: (send(1, 0, 9000), other_done.set()), daemon=True)
        t.start()
        other.append(t)
        other_done.wait(0.3)
        start_reading.set()

    rt = threading.Thread(target=reader, daemon=True)
    rt.start()
    fallback = threading.Timer(0.4, start_reading.set)
    fallback.daemon = True
    fallback.start()
    pp = preempt.PausePoint(_send_path_funcs(), point[0], point[1], at_pause, skip=skip)
    with pp:
        pp.armed = True
        va = threading.Thread(target=lambda: (send(0, 0, 400000), send(0, 1, 20000)), daemon=True)
        va.start()
        va.join(60)
        for t in other:
            t.join(60)
    stuck = va.is_alive() or any(t.is_alive() for t in other)
    fallback.cancel()
    start_reading.set()
    if not _close_bounded(client) and not stuck:
        s.close()
        return f"client.close() did not return within 20 s after every sender had finished (one preemption before {point}): the send lock is still held by a call that has returned"
    rt.join(60)
    s.close()
    if rt.is_alive():
        ctx.inconclusive_because("the raw reader thread did not reach end-of-stream within its 60 s watchdog")
        return None
    if stuck:
        return f"a sender thread never returned (60 s) with one preemption before {point}"
    if pp.fired:
        ctx.count("directed_pause_points_reached")
        if not other_done.is_set() or True:
            pass
    errors = [r for *_x, r in results if r != "ok"]
    if errors:
        return f"send_packet failed in a thread: {errors[0]}"
    wire_packets, why = parse_wire(bytes(wire))
    if why:
        return why
    why = judge([(i, q, sz) for i, q, sz, r in results], wire_packets, True)
    if why:
        return why
    ctx.count("packets_checked", len(wire_packets))
    return None


def _close_bounded(client, seconds: float = 20.0) -> bool:
    """close() takes the client's send lock: run it aside so that a lock left held by a returned call is a verdict, not a hung worker"""
    t = threading.Thread(target=client.close, daemon=True)
    t.start()
    t.join(seconds)
    return not t.is_alive()


def tcp_lock_timeout_case(ctx, rng: random.Random) -> str | None:
    """sender A is blocked mid-packet (nobody reads yet) and holds the send lock; sender B gives up with TimeoutError while waiting for
    the lock (legitimate: the budget covers the lock wait); sender C then queues with a generous timeout; the peer starts reading. The
    wire must hold A whole, then C whole; B wrote nothing; nobody but B sees an exception."""
    from easynetwork.clients.tcp import TCPNetworkClient

    c, s = _dummy_pair()
    c.setsockopt(socket.SOL_SOCKET, socket.SO_SNDBUF, 16384)
    s.setsockopt(socket.SOL_SOCKET, socket.SO_RCVBUF, 16384)
    client = TCPNetworkClient(c, StreamProtocol(JSONSerializer()), retry_interval=rng.choice([0.05, 1.0]))
    results: dict = {}
    wire = bytearray()
    start_reading = threading.Event()

    def reader():
        start_reading.wait(30)
        s.settimeout(0.2)
        while True:
            try:
                d = s.recv(65536)
            except TimeoutError:
                continue
            except OSError:
                return
            if not d:
                return
            wire.extend(d)

    def send(name: str, i: int, size: int, timeout: float):
        try:
            client.send_packet(_packet(i, 0, size), timeout=timeout)
            results[name] = "ok"
        except TimeoutError:
            results[name] = "timeout"
        except Exception as exc:  # noqa: BLE001
            results[name] = f"error:{type(exc).__name__}: {exc}"

    rt = threading.Thread(target=reader, daemon=True)
    rt.start()
    ta = threading.Thread(target=send, args=("A", 0, 400000, 60), daemon=True)
    ta.start()
    time.sleep(0.15)  # A fills the kernel buffers and blocks inside the lock
    tb = threading.Thread(target=send, args=("B", 1, rng.choice([10, 3000]), rng.choice([0.1, 0.25])), daemon=True)
    tb.start()
    tb.join(20)
    tc = threading.Thread(target=send, args=("C", 2, rng.choice([10, 3000, 30000]), 60), daemon=True)
    tc.start()
    # meanwhile other threads use the client's thread-safe state queries, as a reader loop or a supervisor would
    polled: list = []
    query_threads: list = []
    stop_poll = threading.Event()

    def poller():
        while not stop_poll.is_set():
            for q in (client.is_closed, client.get_local_address, client.get_remote_address, client.fileno, lambda: client.socket.getsockname(), lambda: client.socket.fileno(), lambda: client.socket.family):
                if stop_poll.is_set():
                    break
                done = threading.Event()

                def call(q=q):
                    try:
                        q()
                    except Exception as exc:  # noqa: BLE001
                        polled.append(f"{getattr(q, '__name__', q)}: {type(exc).__name__}: {exc}")
                    done.set()

                qt = threading.Thread(target=call, daemon=True)
                qt.start()
                query_threads.append(qt)
                done.wait(0.05)  # a query may legitimately wait for the sender; it must not disturb it
            time.sleep(0.005)

    tp = threading.Thread(target=poller, daemon=True)
    tp.start()
    ctx.count("state_queries_during_blocked_send")
    # half of the runs keep the sender blocked for more than a second (bounded waits inside the library would expire meanwhile)
    time.sleep(1.3 if rng.random() < 0.5 else 0.1)
    start_reading.set()
    for t in (ta, tc):
        t.join(60)
    stop_poll.set()
    tp.join(10)
    for qt in query_threads:
        qt.join(10)  # a query still waiting behind the senders must have finished before the harness closes the client
    stuck = [t for t in (ta, tb, tc) if t.is_alive()]
    closer = threading.Thread(target=client.close, daemon=True)
    closer.start()
    closer.join(30)
    if closer.is_alive() and not stuck:
        # every sender has returned and close() cannot get the send lock: somebody left it held
        s.close()
        return f"client.close() did not return within 30 s after all senders had finished (A={results.get('A')}, B={results.get('B')}, C={results.get('C')}): the send lock is still held by a call that has returned"
    rt.join(60)
    s.close()
    if rt.is_alive() or stuck:
        ctx.inconclusive_because("lock-timeout scenario: a thread exceeded its 60 s watchdog")
        return None
    if polled:
        return f"a state query failed while a send was blocked: {polled[0]}"
    if results.get("B") == "timeout":
        ctx.count("sender_timed_out_waiting_for_the_send_lock")
    elif results.get("B") != "ok":
        return f"the sender that waited for the lock failed with {results.get('B')}"
    for name in ("A", "C"):
        if results.get(name) != "ok":
            return f"sender {name} failed with {results.get(name)} after another sender had timed out waiting for the send lock"
    wire_packets, why = parse_wire(bytes(wire))
    if why:
        return why + " (after a sender timed out waiting for the send lock)"
    got = [(p["s"], len(p["pad"])) for p in wire_packets]
    exp_senders = [0] + ([1] if results.get("B") == "ok" else []) + [2]
    if sorted(x[0] for x in got) != sorted(exp_senders):
        return f"wire holds packets of senders {[x[0] for x in got]}, expected {exp_senders}"
    ctx.count("packets_checked", len(wire_packets))
    return None


def plan(tier: str, seed: int) -> list[dict]:
    n = 25 if tier == "quick" else 600
    th = 2 if tier == "quick" else 30
    return [{"seed": seed * 1000 + k, "iters": n, "threads": th} for k in range(16)]


def run_shard(params: dict, ctx) -> None:
    rng = random.Random(params["seed"])
    for it in range(params["iters"]):
        for target in ("endpoint", "async-client", "server-client", "tls"):
            if ctx.should_stop(100):
                return
            ctx.count(f"target:{target}")
            why = async_target(ctx, target, rng)
            ctx.case(True, target, params["seed"], it)
            if why:
                cat = "deadlock" if "deadlock" in why else "interleaved" if ("interleav" in why or "parse" in why or "not serialized" in why) else "lost-or-dup" if ("twice" in why or "never reached" in why) else "order" if "out of order" in why else "call-failed"
                ctx.violation(f"{cat}:{target}", f"[{target}] {why}", {"target": target, "seed": params["seed"], "it": it})
        ctx.count("target:fairlock")
        why = fairlock_case(ctx, rng)
        ctx.case(True, "fairlock", params["seed"], it)
        if why:
            ctx.violation("fairlock", f"[FairLock] {why}", {"target": "fairlock", "seed": params["seed"], "it": it})
    for it in range(params["threads"]):
        ctx.count("target:tcp-threads")
        why = tcp_threads_case(ctx, rng, params["seed"] * 100 + it)
        ctx.case(True, "tcp-threads", params["seed"], it)
        if why:
            ctx.violation("threads:tcp", f"[TCPNetworkClient threads] {why}", {"target": "tcp-threads", "seed": params["seed"], "it": it})
        ctx.count("target:udp-threads")
        why = udp_threads_case(ctx, rng, params["seed"] * 100 + it)
        ctx.case(True, "udp-threads", params["seed"], it)
        if why:
            ctx.violation("threads:udp", f"[UDPNetworkClient threads] {why}", {"target": "udp-threads", "seed": params["seed"], "it": it})
    for it in range(2 if params["threads"] <= 2 else 12):
        ctx.count("target:tcp-lock-timeout")
        why = tcp_lock_timeout_case(ctx, rng)
        ctx.case(True, "tcp-lock-timeout", params["seed"], it)
        if why:
            ctx.violation("threads:tcp-lock-timeout", f"[TCPNetworkClient threads] {why}", {"target": "tcp-lock-timeout", "seed": params["seed"], "it": it})
    # directed preemption over every line of the blocking send path
    pts = [(p, sk) for p in directed_points() for sk in (0, 2)]  # first and third time the line is reached
    for j in range(params["seed"] % 16, len(pts), 16):
        pt, sk = pts[j]
        ctx.count("target:tcp-directed-preemption")
        why = tcp_directed_case(ctx, pt, sk)
        ctx.case(True, "tcp-directed", pt, sk)
        if why:
            ctx.violation("threads:tcp-directed", f"[TCPNetworkClient threads, pause before {pt} (reach #{sk + 1})] {why}", {"target": "tcp-directed", "point": list(pt), "skip": sk, "seed": params["seed"], "it": 0})
    ctx.sample({"targets": ["endpoint", "async-client", "server-client", "tls", "fairlock", "tcp-threads", "udp-threads"], "senders": "2..8", "packets_each": "1..6", "fragment": "1|7|64|1000 bytes, 0..2 suspensions"})


def replay(witness: dict, ctx) -> None:
    if witness.get("target") == "tcp-directed":
        why = tcp_directed_case(ctx, tuple(witness["point"]), witness.get("skip", 0))
        if why:
            ctx.violation("threads:tcp-directed", why, witness)
        return
    run_shard({"seed": witness["seed"], "iters": witness["it"] + 1, "threads": witness["it"] + 1 if "threads" in witness["target"] else 0}, ctx)
