"""C09 — TLS truncation is never reported as a clean end-of-stream.

Monitor: cut the peer->transport ciphertext of a live TLS session at byte offset k (every offset in the thorough tier), for
both TLS versions, both modes, both roles, the asynchronous transport (memory pipe) and the blocking transport (socketpair,
peer pumped from the selector), and observe what the reader reports. standard-compatible: any cut before the end of the
peer's close_notify => exception, never b''/0; plaintext delivered is a prefix made of completely delivered records; clean
end only after the close_notify; closing sends one (the independent peer's read ends cleanly). Non standard-compatible:
a cut after the handshake is a clean end-of-stream; a cut inside the handshake is an error and closes the wrapped transport.
Every reader asks once more after its first verdict: what it is told must not turn from "truncated" into "ended cleanly".
"""

from __future__ import annotations

import asyncio
import math
import os
import random
import selectors as _real_selectors
import socket
import ssl
from typing import Any

from easynetwork.lowlevel.api_async.backend._asyncio.backend import AsyncIOBackend
from easynetwork.lowlevel.api_async.transports.tls import AsyncTLSStreamTransport
from easynetwork.lowlevel.api_sync.transports import base_selector
from easynetwork.lowlevel.api_sync.transports.socket import SSLStreamTransport

from vlib import netutil  # noqa: E402
from vlib import memtransport, tlspeer, vloop, vselect
from vlib.runner import HangDetected, cpu_guard

PROPERTY = "C09"
LEVEL = "fault_enumeration"
RULE = (
    "case = (transport kind in {async-tls, sync-tls, sync-tcp-client, async-tcp-client}, TLS version, standard_compatible, library role, reader API "
    "recv/recv_into, cut offset k of the peer->library ciphertext, who closes first); quick: every record boundary +-2 plus a stride, "
    "thorough: every byte offset. non-trivial = the cut falls strictly inside a record or exactly at a record boundary before the "
    "close_notify; distinct = distinct (kind, version, mode, role, reader, k)"
)
ASSUMPTIONS = [
    "the peer is an independent stdlib ssl.SSLObject over MemoryBIOs with a self-signed RSA-2048 certificate for 'localhost'",
    "an SSLObject.read() returning b'' / SSLZeroReturnError proves a close_notify was received; SSLEOFError proves the stream ended without one",
    "OpenSSL version of this sandbox; OP_IGNORE_UNEXPECTED_EOF cleared on harness contexts",
]
REQUIRED = [
    "concurrent_close_cases",
    "cut_in_handshake",
    "cut_between_records",
    "cut_inside_record",
    "cut_inside_close_notify",
    "uncut_clean_eof",
    "close_sends_close_notify_checked",
    "kind:async-tls",
    "kind:sync-tls",
    "kind:sync-tcp-client",
    "kind:async-tcp-client",
    "tls1.2",
    "tls1.3",
    "mode:standard",
    "mode:nonstandard",
    "client_builds_default_context",
    "highlevel_server_close_checked",
    "second_read_after_truncation_error",
]
EXHAUSTIVE = {"quick": False, "thorough": True}
WATCHDOG = {"quick": 900, "thorough": 7200}
MSGS = [b"A" * 10, b"B" * 20, b"C" * 1]


class CutPipe:
    """forwards at most `cut` bytes to target, then signals end-of-stream and drops the rest"""

    def __init__(self, target: memtransport.Pipe, cut: int | None) -> None:
        self.target = target
        self.cut = cut
        self.sent = 0
        self.eof = False
        self.log = bytearray()

    def feed(self, data: bytes) -> None:
        self.log += data
        if self.eof:
            return
        if self.cut is None:
            self.target.feed(data)
            self.sent += len(data)
            return
        n = min(len(data), self.cut - self.sent)
        if n > 0:
            self.target.feed(data[:n])
            self.sent += n
        if self.sent >= self.cut:
            self.eof = True
            self.target.feed_eof()

    def feed_eof(self) -> None:
        if not self.eof:
            self.eof = True
            self.target.feed_eof()


def async_session(version: str, std: bool, lib_server: bool, reader: str, k: int | None, order: str = "peer-first") -> dict:
    """returns observation dict. reader 'server-copy' / 'server-buffered': the wrapped transport is not read directly but handed to
    the low-level AsyncStreamServer (no disconnect_error_filter), whose request handler is then the reader: a clean end-of-stream is
    the handler generator being closed (GeneratorExit), an error is an exception thrown at its yield"""
    lines = reader.startswith("server")
    obs: dict[str, Any] = {"plaintext": b"", "end": None, "wrap": None}

    async def main(loop):
        backend = AsyncIOBackend()
        a, b = memtransport.stream_pair(backend)
        cp = CutPipe(a.incoming, k)
        b.outgoing = cp  # type: ignore[assignment]
        if k == 0:
            cp.feed(b"")
        peer = tlspeer.AsyncPeer(b, tlspeer.client_context(version) if lib_server else tlspeer.server_context(version), server_side=not lib_server)
        obs["peer"] = peer
        obs["a"] = a
        obs["cp"] = cp

        async def peer_task():
            try:
                await peer.handshake()
                if order == "peer-first":
                    for m in MSGS:
                        await peer.write(m + (b"\n" if lines else b""))
                    await peer.unwrap()
                    obs["peer_end"] = await peer.read_until_end()
                else:
                    for m in MSGS:
                        await peer.write(m + (b"\n" if lines else b""))
                    obs["peer_end"] = await peer.read_until_end()
                    await peer.unwrap()
            except (ssl.SSLError, OSError) as exc:
                obs["peer_exc"] = type(exc).__name__

        pt = asyncio.ensure_future(peer_task())
        ctx = tlspeer.server_context(version) if lib_server else tlspeer.client_context(version)
        if k == 0:
            cp.feed_eof()
        try:
            t = await AsyncTLSStreamTransport.wrap(a, ctx, server_side=lib_server, server_hostname=None if lib_server else "localhost", standard_compatible=std, handshake_timeout=5, shutdown_timeout=2)
            obs["wrap"] = "ok"
        except BaseException as exc:  # noqa: BLE001
            if isinstance(exc, (asyncio.CancelledError, vloop.Quiescent)):
                raise
            obs["wrap"] = f"error:{type(exc).__name__}"
            obs["wrapped_closed_after_failed_wrap"] = a.aclose_entered > 0
            await asyncio.wait([pt], timeout=10)
            return
        got = bytearray()
        want = sum(len(m) for m in MSGS)
        if lines:
            from easynetwork.lowlevel.api_async.servers.stream import AsyncStreamServer
            from easynetwork.protocol import BufferedStreamProtocol, StreamProtocol
            from easynetwork.serializers import StringLineSerializer

            listener = memtransport.MemListener(backend)
            ser = StringLineSerializer()
            server = AsyncStreamServer(listener, BufferedStreamProtocol(ser) if reader == "server-buffered" else StreamProtocol(ser), max_recv_size=4096)
            finished = asyncio.Event()

            async def handler(client):
                try:
                    while True:
                        req = yield
                        got.extend(req.encode() + b"\n")
                except GeneratorExit:
                    obs["end"] = "clean"
                    raise
                except BaseException as exc:  # noqa: BLE001
                    obs["end"] = f"error:{type(exc).__name__}"
                finally:
                    finished.set()

            serve = asyncio.ensure_future(server.serve(handler))
            listener.connect(t)
            try:
                await asyncio.wait_for(finished.wait(), 60)
            except asyncio.TimeoutError:
                obs["end"] = "error:handler-never-finished"
            for _ in range(5):
                await asyncio.sleep(0)
            obs["plaintext"] = bytes(got)
            obs["aclose"] = "ok"
            obs["wrapped_closed"] = a.aclose_entered > 0
            serve.cancel()
            await asyncio.gather(serve, return_exceptions=True)
            await server.aclose()
            await asyncio.wait([pt], timeout=10)
            return
        try:
            while True:
                if order == "lib-first" and len(got) >= want:
                    obs["end"] = "lib-closes"
                    break
                if reader == "recv":
                    d = await t.recv(4096)
                else:
                    buf = bytearray(4096)
                    n = await t.recv_into(buf)
                    d = bytes(buf[:n])
                if not d:
                    obs["end"] = "clean"
                    break
                got += d
        except BaseException as exc:  # noqa: BLE001
            if isinstance(exc, (asyncio.CancelledError, vloop.Quiescent)):
                raise
            obs["end"] = f"error:{type(exc).__name__}"
        if obs["end"] != "lib-closes":
            try:
                if reader == "recv":
                    obs["end_again"] = "data" if await t.recv(4096) else "clean"
                else:
                    obs["end_again"] = "data" if await t.recv_into(bytearray(4096)) else "clean"
            except BaseException as exc:  # noqa: BLE001
                if isinstance(exc, (asyncio.CancelledError, vloop.Quiescent)):
                    raise
                obs["end_again"] = f"error:{type(exc).__name__}"
        obs["plaintext"] = bytes(got)
        try:
            await t.aclose()
            obs["aclose"] = "ok"
        except BaseException as exc:  # noqa: BLE001
            if isinstance(exc, (asyncio.CancelledError, vloop.Quiescent)):
                raise
            obs["aclose"] = f"error:{type(exc).__name__}"
        obs["wrapped_closed"] = a.aclose_entered > 0
        await asyncio.wait([pt], timeout=10)

    try:
        vloop.run(main)
    except vloop.Quiescent as exc:
        obs["deadlock"] = str(exc)
    peer = obs.get("peer")
    if peer is not None:
        obs["marks"] = dict(peer.sent_marks)
        obs["total"] = peer.bytes_out
        obs["wire"] = bytes(obs["cp"].log)
    return obs


def async_concurrent_close(version: str, std: bool, lib_server: bool, reader: str, eof_when: str) -> dict:
    """a reader task is blocked in recv()/recv_into() while another task calls aclose(); the connection then ends WITHOUT the
    peer's close_notify (eof_when: 'during-aclose' | 'before-aclose'). The blocked reader must not see a clean end-of-stream
    in standard-compatible mode."""
    obs: dict[str, Any] = {"plaintext": b"", "end": None, "wrap": None}

    async def main(loop):
        backend = AsyncIOBackend()
        a, b = memtransport.stream_pair(backend)
        cp = CutPipe(a.incoming, None)
        b.outgoing = cp  # type: ignore[assignment]
        peer = tlspeer.AsyncPeer(b, tlspeer.client_context(version) if lib_server else tlspeer.server_context(version), server_side=not lib_server)

        async def peer_task():
            try:
                await peer.handshake()
                for m in MSGS:
                    await peer.write(m)
                await peer.drain()
                # the peer never sends close_notify; it just keeps reading (and sees ours)
                obs["peer_end"] = await peer.read_until_end()
            except (ssl.SSLError, OSError) as exc:
                obs["peer_exc"] = type(exc).__name__

        pt = asyncio.ensure_future(peer_task())
        ctx = tlspeer.server_context(version) if lib_server else tlspeer.client_context(version)
        t = await AsyncTLSStreamTransport.wrap(a, ctx, server_side=lib_server, server_hostname=None if lib_server else "localhost", standard_compatible=std, handshake_timeout=5, shutdown_timeout=30)
        obs["wrap"] = "ok"
        got = bytearray()
        want = sum(len(m) for m in MSGS)

        async def rd():
            try:
                while True:
                    if reader == "recv":
                        d = await t.recv(4096)
                    else:
                        buf = bytearray(4096)
                        n = await t.recv_into(buf)
                        d = bytes(buf[:n])
                    if not d:
                        obs["end"] = "clean"
                        return
                    got.extend(d)
            except BaseException as exc:  # noqa: BLE001
                if isinstance(exc, (asyncio.CancelledError, vloop.Quiescent)):
                    raise
                obs["end"] = f"error:{type(exc).__name__}"

        rt = asyncio.ensure_future(rd())
        for _ in range(200):
            if len(got) >= want:
                break
            await asyncio.sleep(0)
        for _ in range(5):
            await asyncio.sleep(0)  # the reader is now blocked waiting for more
        if eof_when == "before-aclose":
            cp.feed_eof()
            await asyncio.sleep(0)
        closer = asyncio.ensure_future(t.aclose())
        for _ in range(6):
            await asyncio.sleep(0)
        if eof_when == "during-aclose":
            cp.feed_eof()  # the connection is dropped while aclose() waits for the peer's close_notify
        await asyncio.wait([rt, closer], timeout=100)
        obs["reader_done"] = rt.done()
        obs["closer_done"] = closer.done()
        obs["plaintext"] = bytes(got)
        for x in (rt, closer, pt):
            x.cancel()
        await asyncio.gather(rt, closer, pt, return_exceptions=True)

    try:
        vloop.run(main)
    except vloop.Quiescent as exc:
        obs["deadlock"] = str(exc)
    return obs


# ------------------------------------------------------------------------------------------ sync


class _PeerWorld(vselect.World):
    def __init__(self, clock, peer: tlspeer.PumpedPeer) -> None:
        super().__init__(clock)
        self.peer = peer
        self.stalls = 0

    def on_select(self, fileno, event, timeout):
        if event == _real_selectors.EVENT_WRITE:
            return True
        wrote = self.peer.pump()
        if wrote or self.peer.cut_done or self.peer.peer_eof:
            self.clock.advance(0.001)
            return True
        # the peer has nothing to say: the library waits its whole timeout
        self.stalls += 1
        if timeout is None:
            raise _Stall("peer has nothing to send and the library waits without a timeout")
        self.clock.advance(timeout)
        return False


class _Stall(BaseException):
    pass


class _SelShim:
    def __init__(self, world) -> None:
        self.PollSelector = vselect.selector_factory(world)
        self.SelectSelector = self.PollSelector

    def __getattr__(self, name):
        return getattr(_real_selectors, name)


def _tcp_pair():
    return netutil.tcp_pair()


def sync_session(version: str, std: bool, lib_server: bool, reader: str, k: int | None, order: str = "peer-first", client: bool = False) -> dict:
    obs: dict[str, Any] = {"plaintext": b"", "end": None, "wrap": None}
    lsock, psock = _tcp_pair()
    steps: list = [("handshake",)]
    for m in MSGS:
        steps.append(("write", m + (b"\n" if client else b"")))
    if order == "peer-first":
        steps += [("unwrap",), ("read",)]
    else:
        steps += [("read",), ("unwrap",)]
    pctx = tlspeer.client_context(version) if lib_server else tlspeer.server_context(version)
    peer = tlspeer.PumpedPeer(psock, pctx, server_side=not lib_server, steps=steps, cut=k)
    if k == 0:
        peer.cut_done = True
        psock.shutdown(socket.SHUT_WR)
    clock = vselect.VirtualClock()
    world = _PeerWorld(clock, peer)
    ctx = tlspeer.server_context(version) if lib_server else tlspeer.client_context(version)
    old_sel = base_selector.selectors
    t = None
    cli = None
    try:
        with vselect.virtual_time(clock):
            base_selector.selectors = _SelShim(world)  # type: ignore[assignment]
            try:
                with cpu_guard(20):
                    try:
                        if client:
                            from easynetwork.clients.tcp import TCPNetworkClient
                            from easynetwork.protocol import StreamProtocol
                            from easynetwork.serializers import StringLineSerializer

                            from easynetwork.protocol import BufferedStreamProtocol

                            ser = StringLineSerializer()
                            cli = TCPNetworkClient(lsock, BufferedStreamProtocol(ser) if reader == "recv_into" else StreamProtocol(ser), server_hostname="localhost", ssl_handshake_timeout=5, ssl_shutdown_timeout=2, **_client_ssl_kwargs(ctx, std))
                        else:
                            t = SSLStreamTransport(lsock, ctx, retry_interval=1.0, server_side=lib_server, server_hostname=None if lib_server else "localhost", standard_compatible=std, handshake_timeout=5, shutdown_timeout=2, selector_factory=vselect.selector_factory(world))
                        obs["wrap"] = "ok"
                    except (Exception, _Stall) as exc:  # noqa: BLE001
                        obs["wrap"] = f"error:{type(exc).__name__}"
                        obs["wrapped_closed_after_failed_wrap"] = lsock.fileno() == -1
                    if obs["wrap"] == "ok":
                        got = bytearray()
                        want = sum(len(m) for m in MSGS)
                        try:
                            while True:
                                if order == "lib-first" and len(got) >= want:
                                    obs["end"] = "lib-closes"
                                    break
                                if client:
                                    pkt = cli.recv_packet(timeout=5)
                                    got += pkt.encode() + b"\n"
                                    continue
                                if reader == "recv":
                                    d = t.recv(4096, 5)
                                else:
                                    buf = bytearray(4096)
                                    n = t.recv_into(buf, 5)
                                    d = bytes(buf[:n])
                                if not d:
                                    obs["end"] = "clean"
                                    break
                                got += d
                        except (Exception, _Stall) as exc:  # noqa: BLE001
                            obs["end"] = f"error:{type(exc).__name__}"
                            if client and isinstance(exc, ConnectionAbortedError):
                                obs["end"] = _client_end(exc)
                        if obs["end"] != "lib-closes":
                            # the reader asks once more: what it is told must not change from "truncated" to "ended cleanly"
                            try:
                                if client:
                                    cli.recv_packet(timeout=5)
                                    obs["end_again"] = "data"
                                elif reader == "recv":
                                    obs["end_again"] = "data" if t.recv(4096, 5) else "clean"
                                else:
                                    obs["end_again"] = "data" if t.recv_into(bytearray(4096), 5) else "clean"
                            except (Exception, _Stall) as exc:  # noqa: BLE001
                                obs["end_again"] = f"error:{type(exc).__name__}"
                                if client and isinstance(exc, ConnectionAbortedError):
                                    obs["end_again"] = _client_end(exc)
                        obs["plaintext"] = bytes(got)
                        try:
                            (cli if client else t).close()
                            obs["aclose"] = "ok"
                        except (Exception, _Stall) as exc:  # noqa: BLE001
                            obs["aclose"] = f"error:{type(exc).__name__}"
                        obs["wrapped_closed"] = lsock.fileno() == -1
                        # let the peer read what the library emitted while closing
                        peer.pump()
                        peer.pump()
            except HangDetected as exc:
                obs["deadlock"] = str(exc)
            finally:
                base_selector.selectors = old_sel
    finally:
        for s_ in (lsock, psock):
            try:
                s_.close()
            except OSError:
                pass
    obs["marks"] = dict(peer.marks)
    obs["total"] = peer.marks.get("close_notify", peer.bytes_out) if k is None else None
    obs["peer_end"] = "clean" if peer.got_close_notify else ("ragged" if peer.read_error is not None else "unknown")
    obs["stalls"] = world.stalls
    return obs


# ------------------------------------------------------------------------------------------ async TCP client over real sockets


class _SockTransport:
    """just enough of a transport for AsyncPeer over a real non-blocking socket (asyncio loop.sock_*), with a cut"""

    def __init__(self, sock: socket.socket, cut: int | None) -> None:
        self.sock = sock
        self.cut = cut
        self.sent = 0
        self.done = False
        sock.setblocking(False)

    async def send_all(self, data: bytes) -> None:
        if self.done:
            return
        loop = asyncio.get_running_loop()
        n = len(data) if self.cut is None else min(len(data), self.cut - self.sent)
        if n > 0:
            await loop.sock_sendall(self.sock, data[:n])
            self.sent += n
        if self.cut is not None and self.sent >= self.cut:
            self.done = True
            try:
                self.sock.shutdown(socket.SHUT_WR)
            except OSError:
                pass

    async def recv_into(self, buf) -> int:
        loop = asyncio.get_running_loop()
        try:
            return await loop.sock_recv_into(self.sock, buf)
        except OSError:
            return 0


def _client_end(exc: BaseException) -> str:
    """the clients re-raise every ConnectionError as ConnectionAbortedError; the cause tells a clean end-of-stream
    (the endpoint's '(end-of-stream)' error) from a TLS truncation (SSL EOF error)"""
    cause = exc.__cause__
    if "end-of-stream" in str(exc) or (isinstance(cause, ConnectionAbortedError) and "end-of-stream" in str(cause)):
        return "clean"
    return f"error:ConnectionAbortedError<{type(cause).__name__}>"


_DEFAULT_CTX = False  # set per shard: let the client build its own default context (ssl=True, ssl_standard_compatible left unset)


def _client_ssl_kwargs(ctx, std: bool) -> dict:
    if _DEFAULT_CTX:
        # the library's own ssl.create_default_context(): it trusts the fixture certificate through SSL_CERT_FILE
        os.environ["SSL_CERT_FILE"] = tlspeer.CERT
        return {"ssl": True}
    return {"ssl": ctx, "ssl_standard_compatible": std}


def async_client_session(version: str, std: bool, k: int | None, reader: str = "recv") -> dict:
    from easynetwork.clients.async_tcp import AsyncTCPNetworkClient
    from easynetwork.protocol import BufferedStreamProtocol, StreamProtocol
    from easynetwork.serializers import StringLineSerializer

    obs: dict[str, Any] = {"plaintext": b"", "end": None, "wrap": None}

    async def main(loop):
        lsock, psock = _tcp_pair()
        st = _SockTransport(psock, k)
        if k == 0:
            st.done = True
            psock.shutdown(socket.SHUT_WR)
        peer = tlspeer.AsyncPeer(st, tlspeer.server_context(version), server_side=True)
        obs["peer"] = peer

        async def peer_task():
            try:
                await peer.handshake()
                for m in MSGS:
                    await peer.write(m + b"\n")
                await peer.unwrap()
                obs["peer_end"] = await peer.read_until_end()
            except (ssl.SSLError, OSError) as exc:
                obs["peer_exc"] = type(exc).__name__

        pt = asyncio.ensure_future(peer_task())
        backend = AsyncIOBackend()
        ser = StringLineSerializer()
        cli = AsyncTCPNetworkClient(lsock, BufferedStreamProtocol(ser) if reader == "recv_into" else StreamProtocol(ser), backend, server_hostname="localhost", ssl_handshake_timeout=5, ssl_shutdown_timeout=2, **_client_ssl_kwargs(tlspeer.client_context(version), std))
        try:
            await cli.wait_connected()
            obs["wrap"] = "ok"
        except BaseException as exc:  # noqa: BLE001
            if isinstance(exc, (asyncio.CancelledError, vloop.Quiescent)):
                raise
            obs["wrap"] = f"error:{type(exc).__name__}"
            obs["wrapped_closed_after_failed_wrap"] = lsock.fileno() == -1
        if obs["wrap"] == "ok":
            got = bytearray()
            try:
                while True:
                    pkt = await cli.recv_packet()
                    got += pkt.encode() + b"\n"
            except ConnectionAbortedError as exc:
                obs["end"] = _client_end(exc)
            except BaseException as exc:  # noqa: BLE001
                if isinstance(exc, (asyncio.CancelledError, vloop.Quiescent)):
                    raise
                obs["end"] = f"error:{type(exc).__name__}"
            try:
                await cli.recv_packet()
                obs["end_again"] = "data"
            except ConnectionAbortedError as exc:
                obs["end_again"] = _client_end(exc)
            except BaseException as exc:  # noqa: BLE001
                if isinstance(exc, (asyncio.CancelledError, vloop.Quiescent)):
                    raise
                obs["end_again"] = f"error:{type(exc).__name__}"
            obs["plaintext"] = bytes(got)
        try:
            await cli.aclose()
            obs["aclose"] = "ok"
        except BaseException as exc:  # noqa: BLE001
            if isinstance(exc, (asyncio.CancelledError, vloop.Quiescent)):
                raise
            obs["aclose"] = f"error:{type(exc).__name__}"
        await asyncio.wait([pt], timeout=10)
        obs["wrapped_closed"] = lsock.fileno() == -1
        psock.close()

    try:
        vloop.run(main)
    except vloop.Quiescent as exc:
        obs["deadlock"] = str(exc)
    peer = obs.get("peer")
    if peer is not None:
        obs["marks"] = dict(peer.sent_marks)
        obs["total"] = peer.bytes_out
    return obs


def highlevel_server_close(version: str, mode: str) -> dict:
    """'closing the transport sends a close notification' at the level where users meet it: an AsyncTCPNetworkServer whose handler
    closes the client; mode 'default' leaves ssl_standard_compatible unset (documented default: standard-compatible)"""
    import logging

    from easynetwork.lowlevel.socket import TLSAttribute
    from easynetwork.protocol import StreamProtocol
    from easynetwork.serializers import StringLineSerializer
    from easynetwork.servers.async_tcp import AsyncTCPNetworkServer
    from easynetwork.servers.handlers import AsyncStreamRequestHandler

    obs: dict[str, Any] = {}

    class H(AsyncStreamRequestHandler):
        async def handle(self, client):
            req = yield
            try:
                obs["handler_mode"] = client.extra(TLSAttribute.standard_compatible)
            except Exception as exc:  # noqa: BLE001
                obs["handler_mode"] = f"error:{type(exc).__name__}"
            await client.send_packet(req)
            await client.aclose()

    class _Up:
        def __init__(self):
            self.ev = asyncio.Event()

        def set(self):
            self.ev.set()

    async def main(loop):
        lg = logging.getLogger("verif.c09")
        lg.propagate = False
        lg.handlers[:] = [logging.NullHandler()]
        kw = {} if mode == "default" else {"ssl_standard_compatible": mode == "True"}
        server = AsyncTCPNetworkServer(netutil.rand_loopback(), 0, StreamProtocol(StringLineSerializer()), H(), AsyncIOBackend(), ssl=tlspeer.server_context(version), ssl_handshake_timeout=10, ssl_shutdown_timeout=2, logger=lg, **kw)
        up = _Up()
        st = asyncio.ensure_future(server.serve_forever(is_up_event=up))
        await asyncio.wait_for(up.ev.wait(), 30)
        a = server.get_addresses()[0]
        s = socket.socket()
        s.bind((netutil.rand_loopback(), 0))
        s.setblocking(False)
        await asyncio.get_running_loop().sock_connect(s, (a.host, a.port))
        peer = tlspeer.AsyncPeer(_SockTransport(s, None), tlspeer.client_context(version), server_side=False)
        try:
            await peer.handshake()
            await peer.write(b"hello\n")
            obs["peer_end"] = await asyncio.wait_for(peer.read_until_end(), 30)
            obs["plaintext"] = bytes(peer.plaintext_in)
        except (ssl.SSLError, OSError, asyncio.TimeoutError) as exc:
            obs["peer_end"] = f"error:{type(exc).__name__}"
        s.close()
        await server.shutdown()
        await server.server_close()
        await asyncio.gather(st, return_exceptions=True)

    try:
        vloop.run(main)
    except vloop.Quiescent as exc:
        obs["deadlock"] = str(exc)
    return obs


# ------------------------------------------------------------------------------------------ oracle


_SEEN_AGAIN: dict = {}


def decide(kind: str, std: bool, k: int | None, ref: dict, obs: dict, client: bool) -> str | None:
    total = ref["total"]
    marks = ref["marks"]
    if obs.get("deadlock"):
        return f"deadlock / hang: {obs['deadlock']}"
    full = b"".join(m + (b"\n" if client else b"") for m in MSGS)
    if k is None or k >= total:
        if obs["wrap"] != "ok":
            return f"uncut session: handshake failed ({obs['wrap']})"
        if obs["plaintext"] != full:
            return f"uncut session: plaintext {obs['plaintext']!r} != {full!r}"
        if obs["end"] not in ("clean", "lib-closes"):
            return f"uncut session ended with {obs['end']} instead of a clean end-of-stream"
        return None
    # ---- cut session
    if obs["wrap"] != "ok":
        if k >= marks["handshake"]:
            return f"handshake failed ({obs['wrap']}) although the peer's whole handshake output ({marks['handshake']} bytes) was delivered (cut at {k})"
        if not obs.get("wrapped_closed_after_failed_wrap"):
            return f"handshake failed ({obs['wrap']}) and the wrapped transport was not closed"
        return None
    # plaintext must be a prefix consisting of completely delivered records
    complete = b""
    for i, m in enumerate(MSGS):
        mk = marks.get(f"write{i}") if f"write{i}" in marks else marks.get(f"write{i + 1}")
        if mk is not None and mk <= k:
            complete += m + (b"\n" if client else b"")
    if not complete.startswith(obs["plaintext"]):
        return f"plaintext {obs['plaintext']!r} is not a prefix of the completely delivered records {complete!r} (cut at {k})"
    if std:
        if obs["end"] == "clean" or obs["end"] is None:
            return f"standard-compatible mode: cut at {k}/{total} (before the end of the close_notify) reported as a clean end-of-stream"
        if not str(obs["end"]).startswith("error:"):
            return f"unexpected end {obs['end']}"
        if obs.get("end_again") in ("clean", "data"):
            return f"standard-compatible mode: cut at {k}/{total}: the first read reported {obs['end']}, the next read on the same connection reported a clean end-of-stream" if obs["end_again"] == "clean" else f"a read after the truncation error returned data (cut at {k})"
    else:
        if obs["end"] != "clean":
            return f"non standard-compatible mode: cut at {k}/{total} after the handshake reported as {obs['end']} instead of end-of-stream"
    if not obs.get("wrapped_closed"):
        return "the wrapped transport is not closed after close()"
    if "end_again" in obs:
        _SEEN_AGAIN[(std, obs["end"].split("<")[0], str(obs["end_again"]).split("<")[0])] = _SEEN_AGAIN.get((std, obs["end"].split("<")[0], str(obs["end_again"]).split("<")[0]), 0) + 1
    return None


def classify_cut(ctx, ref: dict, k: int, wire_records: list) -> bool:
    marks = ref["marks"]
    total = ref["total"]
    nontrivial = False
    if k < marks["handshake"]:
        ctx.count("cut_in_handshake")
    last_before_close = max(v for n, v in marks.items() if n != "close_notify")
    if last_before_close < k < total:
        ctx.count("cut_inside_close_notify")
        nontrivial = True
    boundaries = {e for _, s, e in wire_records}
    if k in boundaries and k < total:
        ctx.count("cut_between_records")
        nontrivial = True
    elif 0 < k < total:
        ctx.count("cut_inside_record")
        nontrivial = True
    return nontrivial


def offsets_for(ref: dict, records: list, tier: str, rng: random.Random, stride: int) -> list[int]:
    total = ref["total"]
    if tier == "thorough":
        return list(range(0, total + 1))
    pts = {0, 1, total - 1, total}
    for _, s, e in records:
        for d in (-2, -1, 0, 1, 2, 5):
            pts.add(e + d)
    for v in ref["marks"].values():
        for d in (-1, 0, 1):
            pts.add(v + d)
    off = rng.randrange(stride)
    pts.update(range(off, total, stride))
    return sorted(p for p in pts if 0 <= p <= total)


def plan(tier: str, seed: int) -> list[dict]:
    shards = []
    i = 0
    for kind in ("async-tls", "sync-tls"):
        for version in ("1.2", "1.3"):
            for std in (True, False):
                for lib_server in (False, True):
                    shards.append({"seed": seed * 1000 + i, "kind": kind, "version": version, "std": std, "lib_server": lib_server, "tier": tier})
                    i += 1
    for version in ("1.2", "1.3"):
        for std in (True, False):
            shards.append({"seed": seed * 1000 + i, "kind": "async-lowlevel-server", "version": version, "std": std, "lib_server": True, "tier": tier})
            i += 1
    for version in ("1.2", "1.3"):
        shards.append({"seed": seed * 1000 + i, "kind": "highlevel-server", "version": version, "std": True, "lib_server": True, "tier": tier})
        i += 1
    for kind in ("sync-tcp-client", "async-tcp-client"):
        for version in ("1.2", "1.3"):
            for std in (True, False):
                shards.append({"seed": seed * 1000 + i, "kind": kind, "version": version, "std": std, "lib_server": False, "tier": tier})
                i += 1
            # ssl=True: the client prepares the default context itself and ssl_standard_compatible keeps its default (True)
            shards.append({"seed": seed * 1000 + i, "kind": kind, "version": version, "std": True, "lib_server": False, "tier": tier, "default_ctx": True})
            i += 1
    return shards


def _run(kind, version, std, lib_server, reader, k, order="peer-first"):
    if kind == "async-tls":
        return async_session(version, std, lib_server, reader, k, order)
    if kind == "async-lowlevel-server":
        return async_session(version, std, True, "server-copy" if reader == "recv" else "server-buffered", k, "peer-first")
    if kind == "sync-tls":
        return sync_session(version, std, lib_server, reader, k, order)
    if kind == "sync-tcp-client":
        return sync_session(version, std, False, reader, k, order, client=True)
    return async_client_session(version, std, k, reader)


def run_shard(params: dict, ctx) -> None:
    global _DEFAULT_CTX
    if params["kind"] == "highlevel-server":
        for mode in ("default", "True", "False"):
            ctx.count("highlevel_server_close_checked")
            o = highlevel_server_close(params["version"], mode)
            ctx.case(True, "highlevel-server", params["version"], mode)
            why = None
            if o.get("deadlock"):
                why = f"deadlock: {o['deadlock']}"
            elif o.get("plaintext") != b"hello\n":
                why = f"the peer read {o.get('plaintext')!r} before the end ({o.get('peer_end')})"
            elif mode in ("default", "True") and o.get("peer_end") != "clean":
                why = f"the handler closed the client (ssl_standard_compatible {'left unset' if mode == 'default' else '= True'}) and the peer's read ended '{o.get('peer_end')}': no close notification was sent"
            elif mode in ("default", "True") and o.get("handler_mode") is not True:
                why = f"TLSAttribute.standard_compatible is {o.get('handler_mode')!r} in the handler although ssl_standard_compatible was {'left unset (default: True)' if mode == 'default' else 'True'}"
            elif mode == "False" and o.get("peer_end") not in ("clean", "ragged"):
                why = f"non standard-compatible server: the peer's read ended '{o.get('peer_end')}'"
            if why:
                ctx.violation(f"no-close-notify:highlevel-server:{mode}", f"[AsyncTCPNetworkServer TLS{params['version']}] {why}", {**params, "mode": mode})
        return
    _DEFAULT_CTX = bool(params.get("default_ctx"))
    if _DEFAULT_CTX:
        ctx.count("client_builds_default_context")
    rng = random.Random(params["seed"])
    kind, version, std, lib_server, tier = params["kind"], params["version"], params["std"], params["lib_server"], params["tier"]
    client = kind.endswith("client") or kind == "async-lowlevel-server"  # readers that see lines
    ctx.count(f"kind:{kind}")
    ctx.count("tls" + version)
    ctx.count("mode:standard" if std else "mode:nonstandard")
    ref = _run(kind, version, std, lib_server, "recv", None)
    if ref.get("deadlock") or ref["wrap"] != "ok" or "handshake" not in ref.get("marks", {}):
        ctx.violation(f"reference-session:{kind}", f"uncut reference session failed: { {k: v for k, v in ref.items() if k in ('wrap', 'end', 'deadlock', 'aclose', 'peer_exc')} }", {**params})
        return
    if ref["total"] is None:
        ref["total"] = ref["marks"]["close_notify"]
    why = decide(kind, std, None, ref, ref, client)
    ctx.case(False, kind, version, std, lib_server, "ref")
    if why:
        ctx.violation(f"uncut:{kind}", why, {**params})
        return
    ctx.count("uncut_clean_eof")
    # closing sends a close_notify (standard mode): the independent peer's read ended cleanly
    for order in ("peer-first", "lib-first"):
        if kind == "async-tcp-client" or (client and order == "lib-first"):
            continue
        o = _run(kind, version, std, lib_server, "recv", None, order)
        ctx.case(False, kind, version, std, lib_server, "close", order)
        ctx.count("close_sends_close_notify_checked")
        if o.get("deadlock"):
            ctx.violation(f"close-deadlock:{kind}", f"close ({order}) hangs: {o['deadlock']}", {**params, "order": order})
        elif std and o.get("peer_end") != "clean":
            ctx.violation(f"no-close-notify:{kind}", f"standard-compatible close ({order}): the peer's read ended '{o.get('peer_end')}' (no close_notify seen)", {**params, "order": order})
    if kind == "async-tls":
        for reader in ("recv", "recv_into"):
            for eof_when in ("during-aclose", "before-aclose"):
                o = async_concurrent_close(version, std, lib_server, reader, eof_when)
                ctx.case(True, kind, version, std, lib_server, "concurrent-close", reader, eof_when)
                ctx.count("concurrent_close_cases")
                why = None
                if o.get("deadlock"):
                    why = f"deadlock: {o['deadlock']}"
                elif not o.get("reader_done"):
                    why = "the blocked reader never returned after the connection ended"
                elif o["plaintext"] != b"".join(MSGS):
                    why = f"reader got {o['plaintext']!r}"
                elif std and o["end"] == "clean":
                    why = f"standard-compatible mode: the connection ended without the peer's close_notify while aclose() was in progress ({eof_when}) and the blocked {reader}() reported a clean end-of-stream"
                elif not std and o["end"] != "clean":
                    why = f"non standard-compatible mode: blocked {reader}() ended with {o['end']} instead of end-of-stream"
                if why:
                    ctx.violation(f"concurrent-close:{'clean-eof-on-truncation' if 'clean end' in why else 'other'}:{kind}", f"[{kind} TLS{version} std={std} lib_server={lib_server}] {why}", {**params, "concurrent_close": [reader, eof_when]})
    wire = ref.get("wire") or b""
    records = tlspeer.parse_records(wire) if wire else [(0, 0, v) for v in sorted(set(ref["marks"].values()))]
    stride = 7 if kind.endswith("tls") else 41
    if tier == "thorough" and client:
        stride = 5
    offs = offsets_for(ref, records, "quick" if (client and tier == "quick") else tier, rng, stride)
    if client and tier == "thorough":
        offs = offsets_for(ref, records, "quick", rng, 3)
    first_ok = None
    for k in offs:
        if ctx.should_stop(60):
            return
        reader = "recv" if (k + params["seed"]) % 2 == 0 else "recv_into"
        obs = _run(kind, version, std, lib_server, reader, k)
        nontrivial = classify_cut(ctx, ref, k, records)
        ctx.case(nontrivial, kind, version, std, lib_server, reader, k)
        why = decide(kind, std, k, ref, obs, client)
        if why is None and obs["wrap"] == "ok" and first_ok is None:
            first_ok = k
        if why is None and obs["wrap"] != "ok" and first_ok is not None and k > first_ok:
            why = f"handshake failed for a cut at {k} but succeeded for an earlier cut at {first_ok}"
        if why:
            cat = "clean-eof-on-truncation" if "clean end-of-stream" in why else "nonstandard-not-eof" if "non standard" in why else "handshake" if "handshake" in why else "deadlock" if "deadlock" in why else "plaintext" if "plaintext" in why else "other"
            ctx.violation(f"{cat}:{kind}", f"[{kind} TLS{version} std={std} lib_server={lib_server} {reader}] {why}", {**params, "k": k, "reader": reader, "obs": {x: str(y)[:120] for x, y in obs.items() if x in ("wrap", "end", "aclose", "plaintext", "peer_end", "deadlock")}})
    for key, n in _SEEN_AGAIN.items():
        ctx.count(f"second_read[std={key[0]}]:{key[1]}->{key[2]}", n)
        if key[0] and key[1].startswith("error"):
            ctx.count("second_read_after_truncation_error", n)
    _SEEN_AGAIN.clear()
    ctx.sample({"kind": kind, "tls": version, "standard_compatible": std, "library_is_server": lib_server, "ciphertext_bytes": ref["total"], "marks": ref["marks"], "offsets_tried": len(offs), "first_offsets": offs[:10]})
    ctx.notes.setdefault("exhaustive_note", "thorough tier enumerates every byte offset for the two transports; TCP clients use a stride")


def replay(witness: dict, ctx) -> None:
    rng = random.Random(0)
    kind, version, std, lib_server = witness["kind"], witness["version"], witness["std"], witness["lib_server"]
    client = kind.endswith("client")
    ref = _run(kind, version, std, lib_server, "recv", None)
    if ref.get("total") is None:
        ref["total"] = ref["marks"]["close_notify"]
    if "k" not in witness:
        run_shard({**witness}, ctx)
        return
    obs = _run(kind, version, std, lib_server, witness.get("reader", "recv"), witness["k"])
    why = decide(kind, std, witness["k"], ref, obs, client)
    if why:
        ctx.violation(f"replayed:{kind}", why, witness)
