"""C10 — cancelling or timing out a receive never loses data.

Monitor: a producer writes a numbered byte stream into the peer end of a real TCP loopback pair while the harness, which
owns the event loop, places a cancellation request in a chosen slot relative to the read event: the loop iteration before
it, the same iteration before the I/O callbacks, the same iteration after them, the iteration of the task wake-up. Every
receive call is logged (returned bytes / cancelled). Conservation: the concatenation of everything returned equals a prefix
of what the peer wrote, and after a final uncancelled drain equals everything. A monitor on the socket adapter's protocol
records which orders were actually produced. Blocking endpoints are driven to TimeoutError on a virtual selector.
"""

from __future__ import annotations

import asyncio
import math
import random
import selectors as _real_selectors
import socket
from typing import Any

from easynetwork.lowlevel.api_async.backend._asyncio.backend import AsyncIOBackend
from easynetwork.lowlevel.api_async.endpoints.stream import AsyncStreamEndpoint
from easynetwork.lowlevel.api_sync.endpoints.stream import StreamEndpoint
from easynetwork.lowlevel.api_sync.transports.socket import SocketStreamTransport
from easynetwork.protocol import BufferedStreamProtocol, StreamProtocol
from easynetwork.serializers import StringLineSerializer

from vlib import netutil  # noqa: E402
from vlib import gen, sockmon, tlspeer, vloop, vselect
from vlib.runner import HangDetected, cpu_guard

PROPERTY = "C10"
LEVEL = "exploration"
RULE = (
    "case = (receive layer, slot of the cancellation request relative to the read event in {iteration before, same iteration before "
    "I/O, same iteration after I/O, wake-up iteration, none}, kind of request in {scope.cancel, move_on_after deadline, task.cancel}, "
    "sizes and positions of the writes, number of rounds). Layers: transport recv / recv_into, AsyncStreamEndpoint.recv_packet (both "
    "paths), async TLS over the socket adapter, AsyncTCPNetworkClient iterator with timeout, AsyncStreamServer request receiver (yielded timeout / "
    "timeout scope / move_on_after around the yield, deadlines on a grid that coincides with the arrivals), blocking StreamEndpoint (TimeoutError). "
    "non-trivial = at least one receive was cancelled in the same or an adjacent iteration as a read event (from the monitor log, not "
    "from the plan); distinct = distinct (layer, slot, request kind, write schedule)"
)
ASSUMPTIONS = [
    "loopback TCP delivery is synchronous: bytes written during iteration k are readable at the poll of iteration k+1",
    "a cancelled receive returns nothing; conservation is checked on what later receives return",
    "the order monitor wraps StreamReaderBufferedProtocol.buffer_updated/_wait_for_data from the harness (no source hook)",
]
REQUIRED = [
    "order:cancel-then-read",
    "order:read-then-cancel",
    "order:cancel-iteration-before",
    "order:cancel-after-wakeup",
    "order:cancel-right-after-start",
    "cancel_while_buffer_exported",
    "layer:recv",
    "layer:recv_into",
    "layer:endpoint-copy",
    "layer:endpoint-buffered",
    "layer:tls",
    "layer:client-iterator",
    "layer:server-receiver-copy",
    "layer:server-receiver-buffered",
    "server_runs_with_cancelled_wait",
    "layer:sync-endpoint-copy",
    "layer:sync-endpoint-buffered",
    "bytes_conserved_runs",
]
WATCHDOG = {"quick": 900, "thorough": 7200}
KNOWN_KEY = "recv_into-cancel-same-iteration"


def _tcp_pair():
    c, s = netutil.tcp_pair()
    for x in (c, s):
        x.setblocking(False)
    return c, s


def _stream_bytes(n: int) -> bytes:
    # byte i identifies its position (mod 251, prime) -> any loss / duplication / reordering shifts the pattern
    return bytes((i * 7 + 3) % 251 for i in range(n))


class _RecvError(Exception):
    pass


# "next-iter" / "expired": the request lands right after the receive starts (one iteration later / deadline already passed, like
# iter_received_packets(timeout=0)): a receive that is served from already buffered data must not have a cancellable step after it
# took the packet out of the buffer
SLOTS = ["iter-before", "same-before-io", "same-after-io", "wakeup-iter", "none", "next-iter", "expired"]


async def _rounds(loop: vloop.VirtualLoop, rng: random.Random, peer: socket.socket, data: bytes, sizes: list[int], slots: list[str], kind: str, recv_once, on_data, backend) -> None:
    """for each round: arm the write at iteration k and the cancellation in its slot, then perform one receive attempt"""
    pos = 0
    for n, slot in zip(sizes, slots):
        chunk = data[pos : pos + n]
        pos += len(chunk)
        k = loop.iteration + 3
        loop.before_io(k, lambda chunk=chunk: peer.send(chunk))
        # the read event is seen at the poll of iteration k+1
        scope = backend.open_cancel_scope(deadline=loop.time() + 5.0)  # a round never waits for ever (incomplete packet)
        task = asyncio.current_task()
        req = None
        if kind == "scope":
            req = scope.cancel
        elif kind == "task":
            req = task.cancel
        if slot == "next-iter":
            loop.before_io(loop.iteration + 1, req) if req else None
        elif slot == "expired":
            if kind == "task":
                loop.call_soon(task.cancel)
            else:
                scope = backend.open_cancel_scope(deadline=loop.time())
        if slot == "iter-before":
            loop.before_io(k, req) if req else None
        elif slot == "same-before-io":
            loop.before_io(k + 1, req) if req else None
        elif slot == "same-after-io":
            loop.after_io(k + 1, req) if req else None
        elif slot == "wakeup-iter":
            loop.before_io(k + 2, req) if req else None
        try:
            with scope:
                d = await recv_once()
                on_data(d)
                # stay inside the scope for a few iterations so a late request still lands in here
                for _ in range(4):
                    await asyncio.sleep(0)
            # let pending slots fire before the next round
            for _ in range(5):
                await asyncio.sleep(0)
        except asyncio.CancelledError:
            if kind != "task":
                raise
            task.uncancel()
            for _ in range(5):
                try:
                    await asyncio.sleep(0)
                except asyncio.CancelledError:
                    task.uncancel()
        except Exception as exc:  # noqa: BLE001  (incl. ssl.SSLError: the stream above the lost bytes is broken; any other failure of a later receive is just as much "the rest of the stream was not delivered")
            on_data(_RecvError(f"{type(exc).__name__}: {exc}"))
            break
    # no armed request may fire later than this point (it would hit the harness's own drain / close code)
    for _ in range(50):
        if not loop._before and not loop._after:
            break
        try:
            await asyncio.sleep(0)
        except asyncio.CancelledError:
            asyncio.current_task().uncancel()
    for _ in range(3):
        try:
            await asyncio.sleep(0)
        except asyncio.CancelledError:
            asyncio.current_task().uncancel()


def async_layer(ctx, layer: str, rng: random.Random, sizes: list[int], slots: list[str], kind: str) -> tuple[str | None, list]:
    total = sum(sizes)
    data = _stream_bytes(total) if layer not in ("endpoint-copy", "endpoint-buffered", "client-iterator") else None
    got = bytearray()
    pkts: list = []
    state: dict[str, Any] = {}

    def add_bytes(d):
        if isinstance(d, _RecvError):
            state["recv_error"] = str(d)
        else:
            got.extend(d)

    def add_pkt(v):
        if isinstance(v, _RecvError):
            state["recv_error"] = str(v)
        else:
            pkts.append(v)

    sockmon.install()
    sockmon.reset()

    if data is None:
        # packet layers: lines of varying length, written in the same sized pieces
        lines = []
        buf = bytearray()
        i = 0
        while len(buf) < total:
            ln = f"pkt{i:04d}" + "x" * rng.randint(0, 9)
            lines.append(ln)
            buf += ln.encode() + b"\n"
            i += 1
        data = bytes(buf)
        sizes = list(sizes) + [len(data) - total] if len(data) > total else sizes
        slots = list(slots) + ["none"] * (len(sizes) - len(slots))
        state["lines"] = lines

    async def main(loop):
        backend = AsyncIOBackend()
        lsock, peer = _tcp_pair()
        try:
            if layer == "tls":
                st = _SockT(peer)
                tp = tlspeer.AsyncPeer(st, tlspeer.server_context("1.3"), server_side=True)
                hs = asyncio.ensure_future(tp.handshake())
                raw = await backend.wrap_stream_socket(lsock)
                from easynetwork.lowlevel.api_async.transports.tls import AsyncTLSStreamTransport

                t = await AsyncTLSStreamTransport.wrap(raw, tlspeer.client_context("1.3"), server_hostname="localhost", handshake_timeout=1e6, shutdown_timeout=1)
                await hs
                await tp.drain()
                # pre-encrypt every piece as its own record(s); the harness writes ciphertext at the chosen iterations
                cipher_pieces = []
                pos = 0
                for n in sizes:
                    tp.obj.write(data[pos : pos + n])
                    pos += n
                    cipher_pieces.append(tp.outbio.read())

                class _PeerShim:
                    i = 0

                    def send(self_inner, chunk):
                        c = cipher_pieces[self_inner.i]
                        self_inner.i += 1
                        return peer.send(c)

                wpeer: Any = _PeerShim()

                async def recv_once():
                    b = bytearray(4096)
                    n = await t.recv_into(b)
                    return bytes(b[:n])

                await _rounds(loop, rng, wpeer, data, sizes, slots, kind, recv_once, add_bytes, backend)
                peer.shutdown(socket.SHUT_WR)
                # final drain
                while not state.get("recv_error"):
                    b = bytearray(4096)
                    try:
                        n = await t.recv_into(b)
                    except Exception as exc:  # noqa: BLE001
                        state["drain_error"] = f"{type(exc).__name__}: {exc}"
                        break
                    if not n:
                        break
                    got.extend(b[:n])
                await raw.aclose()
                return
            tr = await backend.wrap_stream_socket(lsock)
            if layer in ("recv", "recv_into"):

                async def recv_once():
                    if layer == "recv":
                        return await tr.recv(rng.choice([1, 7, 4096]))
                    b = bytearray(rng.choice([1, 7, 4096]))
                    n = await tr.recv_into(b)
                    return bytes(b[:n])

                await _rounds(loop, rng, peer, data, sizes, slots, kind, recv_once, add_bytes, backend)
                peer.shutdown(socket.SHUT_WR)
                while True:
                    d = await tr.recv(65536)
                    if not d:
                        break
                    got.extend(d)
                await tr.aclose()
            elif layer in ("endpoint-copy", "endpoint-buffered"):
                ser = StringLineSerializer()
                ep = AsyncStreamEndpoint(tr, BufferedStreamProtocol(ser) if layer.endswith("buffered") else StreamProtocol(ser), max_recv_size=rng.choice([3, 64, 16384]))

                async def recv_once():
                    return await ep.recv_packet()

                await _rounds(loop, rng, peer, data, sizes, slots, kind, recv_once, add_pkt, backend)
                peer.shutdown(socket.SHUT_WR)
                try:
                    while True:
                        pkts.append(await ep.recv_packet())
                except ConnectionAbortedError:
                    pass
                await ep.aclose()
            elif layer == "client-iterator":
                from easynetwork.clients.async_tcp import AsyncTCPNetworkClient

                await tr.aclose()
                lsock2, peer2 = _tcp_pair()
                peer.close()
                cli = AsyncTCPNetworkClient(lsock2, BufferedStreamProtocol(StringLineSerializer()), backend, max_recv_size=rng.choice([3, 64, 16384]))
                await cli.wait_connected()
                # iterator with a timeout: the deadline is the cancellation request; writes are placed around it
                pos = 0
                for n, slot in zip(sizes, slots):
                    chunk = data[pos : pos + n]
                    pos += n
                    if slot in ("next-iter", "expired"):
                        # several packets arrive in one piece; the first is taken with a plain wait, the rest is drained with
                        # iter_received_packets(timeout=0): packets served from the buffer under an already expired deadline
                        peer2.send(chunk)
                        for _ in range(3):
                            await asyncio.sleep(0)
                        it = cli.iter_received_packets(timeout=0.5)
                        try:
                            pkts.append(await anext(it))
                        except StopAsyncIteration:
                            pass
                        del it
                        async for v in cli.iter_received_packets(timeout=0):
                            pkts.append(v)
                        await asyncio.sleep(1.0)
                        continue
                    dl = 1.0
                    t_write = {"iter-before": 1.5, "same-before-io": 1.0, "same-after-io": 1.0, "wakeup-iter": 0.5, "none": 0.0}[slot]
                    h = loop.call_later(t_write, lambda chunk=chunk: peer2.send(chunk))
                    async for v in cli.iter_received_packets(timeout=dl):
                        pkts.append(v)
                    await asyncio.sleep(2.0)
                peer2.shutdown(socket.SHUT_WR)
                async for v in cli.iter_received_packets(timeout=None):
                    pkts.append(v)
                await cli.aclose()
                peer2.close()
        finally:
            for s_ in (lsock, peer):
                try:
                    s_.close()
                except OSError:
                    pass

    try:
        vloop.run(main)
    except vloop.Quiescent as exc:
        return f"deadlock: {exc}", sockmon.lost_events()
    except Exception as exc:  # noqa: BLE001
        # a receive issued after the cancelled ones (final drain, iterator) failed: the rest of the stream was not delivered
        return f"byte stream not conserved: a later receive failed with {type(exc).__name__}: {exc}", []
    ev = list(sockmon.EVENTS)
    lost = sockmon.lost_events()
    for e in ev:
        if e[0] == "cancel-then-read":
            ctx.count("order:cancel-then-read")
            ctx.count("cancel_while_buffer_exported")
        elif e[0] == "read-then-cancel":
            ctx.count("order:read-then-cancel")
            ctx.count("cancel_while_buffer_exported")
        elif e[0] == "cancelled-receive":
            ctx.count("order:cancel-iteration-before")
    if "wakeup-iter" in slots:
        ctx.count("order:cancel-after-wakeup")
    if "next-iter" in slots or "expired" in slots:
        ctx.count("order:cancel-right-after-start")
    model = sockmon.reduce_stream(data) if layer != "tls" else None
    if state.get("recv_error"):
        # TLS: dropped ciphertext can only surface as a record error; attributable iff deliveries were dropped
        return f"byte stream not conserved: a later receive failed with {state['recv_error']}", (lost if layer == "tls" else [])
    if state.get("lines") is not None:
        if pkts != state["lines"]:
            missing = [x for x in state["lines"] if x not in pkts]
            # exactly what the known mechanism predicts? (the consumer saw the stream minus the dropped deliveries)
            exact = False
            if lost and model is not None:
                mpk = [x.decode("ascii", "replace") for x in model.split(b"\n")[:-1]]
                exact = pkts == mpk
            return f"packets delivered differ from packets sent: {len(pkts)}/{len(state['lines'])} delivered, first missing {missing[:2]}, extra {[x for x in pkts if x not in state['lines']][:2]}", (lost if exact else [])
    else:
        if bytes(got) != data:
            # first divergence
            i = next((j for j in range(min(len(got), len(data))) if got[j] != data[j]), min(len(got), len(data)))
            exact = bool(lost) and ((model is not None and bytes(got) == model) or (layer == "tls" and data.startswith(bytes(got)) and bool(state.get("drain_error"))))
            return f"byte stream not conserved: received {len(got)}/{len(data)} bytes, first divergence at offset {i}" + (f" (final drain: {state['drain_error']})" if state.get("drain_error") else ""), (lost if exact else [])
    ctx.count("bytes_conserved_runs")
    return None, lost


class _SockT:
    def __init__(self, sock) -> None:
        self.sock = sock

    async def send_all(self, data) -> None:
        await asyncio.get_running_loop().sock_sendall(self.sock, data)

    async def recv_into(self, buf) -> int:
        try:
            return await asyncio.get_running_loop().sock_recv_into(self.sock, buf)
        except OSError:
            return 0


# ------------------------------------------------------------------------------------------- blocking endpoints


class _World(vselect.World):
    def __init__(self, clock, peer, arrivals):
        super().__init__(clock)
        self.peer = peer
        self.arrivals = list(arrivals)  # [(t_abs, bytes)]

    def on_select(self, fileno, event, timeout):
        if not self.arrivals:
            if timeout is None:
                raise RuntimeError("would block forever")
            self.clock.advance(timeout)
            return False
        te, d = self.arrivals[0]
        wait = max(0.0, te - self.clock.now)
        if timeout is None or wait <= timeout:
            self.clock.advance(wait)
            self.arrivals.pop(0)
            self.peer.send(d)
            return True
        self.clock.advance(timeout)
        return False


def sync_layer(ctx, buffered: bool, rng: random.Random) -> str | None:
    lines = [f"pkt{i:04d}" + "y" * rng.randint(0, 12) for i in range(rng.randint(2, 5))]
    data = b"".join(x.encode() + b"\n" for x in lines)
    cuts = sorted(rng.sample(range(1, len(data)), min(len(data) - 1, rng.randint(1, 6))))
    pieces = gen.chunks_from_cuts(data, cuts)
    clock = vselect.VirtualClock()
    t = clock.now
    arrivals = []
    for p in pieces:
        t += rng.choice([0.0, 0.5, 1.0, 2.0])
        arrivals.append((t, p))
    a, b = socket.socketpair()
    a.setblocking(False)
    b.setblocking(False)
    world = _World(clock, b, arrivals)
    got = []
    ntimeouts = 0
    why = None
    try:
        with vselect.virtual_time(clock):
            tr = SocketStreamTransport(a, retry_interval=1.0, selector_factory=vselect.selector_factory(world))
            ser = StringLineSerializer()
            ep = StreamEndpoint(tr, BufferedStreamProtocol(ser) if buffered else StreamProtocol(ser), max_recv_size=rng.choice([1, 5, 1024]))
            with cpu_guard(20):
                for _ in range(200):
                    if len(got) == len(lines):
                        break
                    try:
                        got.append(ep.recv_packet(timeout=rng.choice([0, 0.25, 0.5, 1.0])))
                    except TimeoutError:
                        ntimeouts += 1
                    except Exception as exc:  # noqa: BLE001
                        why = f"unexpected {type(exc).__name__}: {exc}"
                        break
    except HangDetected as exc:
        why = str(exc)
    finally:
        a.close()
        b.close()
    if why:
        return why
    if got != lines:
        return f"after {ntimeouts} timed-out receives the packets delivered are {got} instead of {lines}"
    if ntimeouts:
        ctx.count("sync_timeouts_with_partial_frame", ntimeouts)
    ctx.count("bytes_conserved_runs")
    return None


def server_layer(ctx, buffered: bool, rng: random.Random, witness: dict) -> str | None:
    """server request receiver: a low-level handler generator drains N requests while every wait is bounded by a yielded timeout /
    a timeout scope / a move_on_after scope around the yield whose deadline is placed before, on and after the arrival instants
    (virtual time), with several requests per chunk. The requests the generator receives must be exactly the lines sent, in order."""
    from easynetwork.lowlevel.api_async.servers.stream import AsyncStreamServer

    from vlib import memtransport

    lines = [f"req{i:03d}" + "q" * rng.randint(0, 5) for i in range(rng.randint(3, 8))]
    data = b"".join(x.encode() + b"\n" for x in lines)
    ncuts = rng.choice([0, 0, 1, 2, 4])
    cuts = sorted(rng.sample(range(1, len(data)), min(len(data) - 1, ncuts)))
    pieces = gen.chunks_from_cuts(data, cuts)
    grid = [0.0, 0.25, 0.5, 1.0]
    script = [(rng.choice(grid + [-1, -2]), p) for p in pieces]
    plan_modes = [(rng.choice(["yield", "yield", "timeout-scope", "move-on-scope"]), rng.choice(grid)) for _ in range(64)]
    # raw: the generator is the low-level handler itself; handle / on_connection: the same generator is the handle() or the
    # on_connection() of a high-level AsyncStreamRequestHandler run through servers.misc.build_lowlevel_stream_server_handler
    via = rng.choice(["raw", "raw", "handle", "on_connection"])
    witness.update({"lines": lines, "script": [(d, len(p)) for d, p in script], "modes": plan_modes[:12], "via": via})
    got: list = []
    state = {"timeouts": 0, "cancels_in_scope": 0, "errors": []}

    async def main(loop):
        backend = AsyncIOBackend()
        listener = memtransport.MemListener(backend)
        ser = StringLineSerializer()
        server = AsyncStreamServer(listener, BufferedStreamProtocol(ser) if buffered else StreamProtocol(ser), max_recv_size=rng.choice([3, 64, 16384]))
        m = memtransport.MemStreamTransport(backend)
        done = asyncio.Event()

        async def handler(client):
            i = 0
            try:
                while len(got) < len(lines) and i < 400:
                    mode, t = plan_modes[i % len(plan_modes)]
                    i += 1
                    try:
                        if mode == "yield":
                            got.append((yield t))
                        elif mode == "timeout-scope":
                            with backend.timeout(t):
                                got.append((yield None))
                        else:
                            with backend.move_on_after(t) as sc:
                                got.append((yield None))
                            if sc.cancelled_caught():
                                state["cancels_in_scope"] += 1
                    except TimeoutError:
                        state["timeouts"] += 1
                    except Exception as exc:  # noqa: BLE001
                        state["errors"].append(f"{type(exc).__name__}: {exc}")
            finally:
                done.set()

        low_handler = handler
        if via != "raw":
            import contextlib

            from checks.c15 import _Client
            from easynetwork.servers.handlers import AsyncStreamRequestHandler
            from easynetwork.servers.misc import build_lowlevel_stream_server_handler

            async def _idle(client):
                while True:
                    yield

            class H(AsyncStreamRequestHandler):
                def on_connection(self_inner, client):
                    return low_handler(client) if via == "on_connection" else _noop()

                def handle(self_inner, client):
                    return low_handler(client) if via == "handle" else _idle(client)

            async def _noop():
                return None

            @contextlib.asynccontextmanager
            async def initializer(low):
                yield _Client(low)

            handler = build_lowlevel_stream_server_handler(initializer, H())  # type: ignore[assignment]
            ctx.count(f"server_receiver_via_{via}")
        serve = asyncio.ensure_future(server.serve(handler))
        listener.connect(m)
        feed = asyncio.ensure_future(memtransport.feeder(m.incoming, script))
        try:
            await asyncio.wait_for(done.wait(), 600)
        except TimeoutError:
            state["errors"].append("handler never finished")
        feed.cancel()
        serve.cancel()
        await asyncio.gather(feed, serve, return_exceptions=True)
        await server.aclose()

    try:
        vloop.run(main)
    except vloop.Quiescent as exc:
        return f"deadlock: {exc}"
    ctx.count("server_timeouts_thrown", state["timeouts"] + state["cancels_in_scope"])
    if state["timeouts"] + state["cancels_in_scope"]:
        ctx.count("server_runs_with_cancelled_wait")
    if got != lines:
        missing = [x for x in lines if x not in got]
        return f"the handler generator received {got} instead of {lines} (missing {missing[:3]}) after {state['timeouts']} timeouts and {state['cancels_in_scope']} scope cancellations; errors {state['errors'][:2]}"
    if state["errors"]:
        return f"unexpected exceptions thrown into the handler: {state['errors'][:3]}"
    ctx.count("bytes_conserved_runs")
    return None


ASYNC_LAYERS = ["recv", "recv_into", "endpoint-copy", "endpoint-buffered", "tls", "client-iterator"]


def plan(tier: str, seed: int) -> list[dict]:
    n = 8 if tier == "quick" else 3000
    return [{"seed": seed * 1000 + k, "iters": n} for k in range(16)]


def run_shard(params: dict, ctx) -> None:
    rng = random.Random(params["seed"])
    for it in range(params["iters"]):
        for layer in ASYNC_LAYERS:
            if ctx.should_stop(300):
                return
            nrounds = rng.randint(2, 5)
            sizes = [rng.choice([1, 5, 20, 100]) for _ in range(nrounds)]
            slots = [rng.choice(SLOTS) for _ in range(nrounds)]
            # every slot is exercised systematically on the first rounds of the first iterations
            slots[0] = SLOTS[(it + len(layer)) % len(SLOTS)]
            kind = rng.choice(["scope", "scope", "task"])
            ctx.count(f"layer:{layer}")
            why, lost = async_layer(ctx, layer, rng, sizes, slots, kind)
            nontrivial = bool(lost) or any(s != "none" for s in slots)
            ctx.case(nontrivial, layer, tuple(sizes), tuple(slots), kind)
            if why:
                if lost and ("conserved" in why or "packets delivered differ" in why):
                    ctx.violation(KNOWN_KEY, f"[{layer}] {why}; order monitor: {lost[:3]}", {"layer": layer, "sizes": sizes, "slots": slots, "kind": kind, "monitor": lost[:5], "seed": params["seed"], "it": it})
                else:
                    ctx.violation(f"lost-data:{layer}", f"[{layer}] sizes={sizes} slots={slots} kind={kind}: {why}", {"layer": layer, "sizes": sizes, "slots": slots, "kind": kind, "seed": params["seed"], "it": it})
            if it == 0 and layer == "recv_into":
                ctx.sample({"layer": layer, "write_sizes": sizes, "cancel_slots": slots, "request": kind})
        for buffered in (False, True):
            for _rep in range(4):
                name = "server-receiver-buffered" if buffered else "server-receiver-copy"
                ctx.count(f"layer:{name}")
                w: dict = {}
                why = server_layer(ctx, buffered, rng, w)
                ctx.case(True, name, repr(w))
                if why:
                    ctx.violation(f"lost-data:{name}", f"[{name}] {why}", {"layer": name, "seed": params["seed"], "it": it, **w})
        for buffered in (False, True):
            ctx.count("layer:sync-endpoint-buffered" if buffered else "layer:sync-endpoint-copy")
            why = sync_layer(ctx, buffered, rng)
            ctx.case(True, "sync", buffered, params["seed"], it)
            if why:
                ctx.violation(f"lost-data:sync-endpoint-{'buffered' if buffered else 'copy'}", why, {"layer": "sync", "buffered": buffered, "seed": params["seed"], "it": it})


def replay(witness: dict, ctx) -> None:
    run_shard({"seed": witness["seed"], "iters": witness["it"] + 1}, ctx)
