"""C03 — receive endpoints: every complete packet once, then a sticky end-of-stream.

Monitor: scripted transports (blocking and asynchronous) deliver a stream cut at position p, with "no data yet" events
in between, then end-of-stream followed by a *hostile tail* (if the endpoint reads again after EOF the transport hands out
more bytes and flags it). A generated history of recv_packet / iterator calls with timeouts in {None, >0, 0} is checked:
packets == complete frames before the cut, in order, once; TimeoutError only while no complete frame is available; then
ConnectionAbortedError for ever, without touching the transport again. TCP clients are driven over real loopback sockets.
"""

from __future__ import annotations

import asyncio
import math
import random
import socket
from typing import Any

from easynetwork.lowlevel.api_async.backend._asyncio.backend import AsyncIOBackend
from easynetwork.lowlevel.api_async.endpoints.stream import AsyncStreamEndpoint
from easynetwork.lowlevel.api_sync.endpoints.stream import StreamEndpoint
from easynetwork.lowlevel.api_sync.transports.abc import StreamTransport

from vlib import netutil  # noqa: E402
from vlib import drive, gen, memtransport, sockmon, vloop
from vlib.runner import HangDetected, cpu_guard

PROPERTY = "C03"
LEVEL = "fault_enumeration"
RULE = (
    "case = (serializer configuration, packet list, close position p in 0..len(stream) (every p for short streams), chunking with "
    "'no data yet' events, call history of recv_packet with timeouts in {None, 1.0, 0} + >=4 extra calls after end-of-stream, "
    "receive path, endpoint kind in {sync endpoint, async endpoint, sync TCP client, async TCP client, iterators}). non-trivial = the "
    "cut falls strictly inside a frame or at a boundary with >= 2 packets still undelivered; distinct = distinct "
    "(kind, config, stream, p, chunking, history)"
)
ASSUMPTIONS = [
    "scripted transports behave like non-blocking sockets: timeout=0 returns available data, a 'no data yet' event raises TimeoutError for finite timeouts",
    "real-socket runs use loopback TCP; after a peer RST the kernel may discard undelivered data, so only prefix + sticky error is required there",
    "asynchronous timeouts are taken with backend.timeout(x) on the virtual-time loop",
]
REQUIRED = [
    "eof_inside_frame",
    "eof_at_boundary_two_buffered",
    "eof_before_any_byte",
    "timeout_between_packets",
    "sticky_calls_checked",
    "kind:sync-endpoint",
    "kind:async-endpoint",
    "kind:sync-client",
    "kind:async-client",
    "kind:sync-iterator",
    "kind:async-iterator",
    "path:copy",
    "path:buffered",
    "second_reader_polls_while_first_is_blocked",
]
WATCHDOG = {"quick": 900, "thorough": 7200}
HOSTILE = b'"HOSTILE"\nHOSTILE\r\n\x00\x00\x00\x07HOSTILE' * 4


class ScriptTransport(StreamTransport):
    def __init__(self, events: list) -> None:
        self.events = list(events)
        self.ncalls = 0
        self.handed = 0
        self.eof_returned = False
        self.read_after_eof = False
        self._closed = False

    def recv_into(self, buffer, timeout: float) -> int:
        self.ncalls += 1
        with memoryview(buffer) as mv:
            if self.eof_returned:
                self.read_after_eof = True
                n = min(mv.nbytes, len(HOSTILE))
                mv[:n] = HOSTILE[:n]
                return n
            while True:
                ev = self.events[0] if self.events else ("eof",)
                if ev[0] == "data":
                    n = min(mv.nbytes, len(ev[1]))
                    mv[:n] = ev[1][:n]
                    rest = ev[1][n:]
                    if rest:
                        self.events[0] = ("data", rest)
                    else:
                        self.events.pop(0)
                    self.handed += n
                    return n
                if ev[0] == "timeout":
                    self.events.pop(0)
                    if timeout == math.inf:
                        continue
                    raise TimeoutError("scripted: no data yet")
                self.eof_returned = True
                return 0

    def send(self, data, timeout: float) -> int:
        return len(data)

    def send_eof(self) -> None:
        pass

    def close(self) -> None:
        self._closed = True

    def is_closed(self) -> bool:
        return self._closed

    @property
    def extra_attributes(self):
        return {}


def decide(results: list[dict], expected: list, ends: list[int], p: int, *, require_all: bool = True, reset: bool = False) -> str | None:
    """results: [{'r': ('P', v) | 'T' | 'EOF' | ('X', desc), 'handed': int, 'calls': int}]"""
    n_before_cut = sum(1 for e in ends if e <= p)
    k = 0
    eof_seen = False
    calls_at_eof = None
    for i, res in enumerate(results):
        r = res["r"]
        handed = p if res["handed"] is None else min(res["handed"], p)
        avail = sum(1 for e in ends if e <= handed)
        if eof_seen:
            if r != "EOF":
                return f"call {i}: after end-of-stream was reported the endpoint returned {r!r}"
            if calls_at_eof is not None and res["calls"] != calls_at_eof:
                return f"call {i}: the transport was touched again after end-of-stream ({res['calls']} calls vs {calls_at_eof})"
            continue
        if isinstance(r, tuple) and r[0] == "P":
            if k >= n_before_cut:
                return f"call {i}: packet {r[1]!r} delivered but only {n_before_cut} frames were complete before the close"
            if repr(r[1]) != repr(expected[k]):
                return f"call {i}: packet #{k} is {r[1]!r}, expected {expected[k]!r}"
            k += 1
        elif r == "T":
            if res.get("handed") is not None and avail > k:
                return f"call {i}: TimeoutError although a complete undelivered frame had been received ({avail} available, {k} delivered)"
        elif r == "EOF":
            if k < n_before_cut and not reset:
                return f"call {i}: end-of-stream reported with {n_before_cut - k} complete packets undelivered"
            eof_seen = True
            calls_at_eof = res["calls"]
        else:
            return f"call {i}: unexpected result {r!r}"
    if require_all and not eof_seen:
        return "end-of-stream never reported"
    return None


def _history(rng: random.Random, n: int) -> list:
    return [rng.choice([None, None, 1.0, 0]) for _ in range(n)]


def _events(rng: random.Random, stream: bytes, p: int, cuts: list[int]) -> tuple[list, bool]:
    evs: list = []
    has_timeout = False
    chunks = gen.chunks_from_cuts(stream[:p], [c for c in cuts if c < p])
    for c in chunks:
        if rng.random() < 0.3:
            evs.append(("timeout",))
            has_timeout = True
        evs.append(("data", c))
    if rng.random() < 0.3:
        evs.append(("timeout",))
    evs.append(("eof",))
    return evs, has_timeout


def _classify_cut(ctx, ends: list[int], p: int, first_chunk_end: int) -> bool:
    inside = p not in ends and p != 0
    if inside:
        ctx.count("eof_inside_frame")
    if p == 0:
        ctx.count("eof_before_any_byte")
    return inside


def run_sync_endpoint(ctx, cfg, buffered: bool, packets, stream, ends, p, cuts, rng, tag) -> None:
    proto = cfg.buffered_protocol() if buffered else cfg.stream_protocol()
    expected = [cfg.expect(x) for x in packets]
    evs, has_to = _events(rng, stream, p, cuts)
    tr = ScriptTransport(evs)
    ep = StreamEndpoint(tr, proto, max_recv_size=rng.choice([1, 3, 64, 16384]))
    inside = _classify_cut(ctx, ends, p, 0)
    hist = _history(rng, len(packets) + len(evs) + 2) + [None, 1.0, 0, None, 0]
    results = []
    try:
        with cpu_guard(20):
            for t in hist:
                try:
                    v = ep.recv_packet(timeout=t)
                    r: Any = ("P", v)
                except TimeoutError:
                    r = "T"
                except ConnectionAbortedError:
                    r = "EOF"
                except Exception as exc:  # noqa: BLE001
                    r = ("X", f"{type(exc).__name__}: {exc}")
                results.append({"r": r, "handed": tr.handed, "calls": tr.ncalls})
    except HangDetected as exc:
        results.append({"r": ("X", str(exc)), "handed": tr.handed, "calls": tr.ncalls})
    why = decide(results, expected, ends, p)
    if why is None and tr.read_after_eof:
        why = "the endpoint read from the transport again after it returned end-of-stream"
    _report(ctx, "sync-endpoint", cfg, buffered, stream, ends, p, cuts, hist, results, why, inside, tag)
    ep.close()


def _report(ctx, kind, cfg, buffered, stream, ends, p, cuts, hist, results, why, inside, tag, lost_events=()):
    ctx.count(f"kind:{kind}")
    ctx.count("path:buffered" if buffered else "path:copy")
    n_eof = sum(1 for r in results if r["r"] == "EOF")
    if n_eof >= 2:
        ctx.count("sticky_calls_checked", n_eof - 1)
    rs = [r["r"] for r in results]
    for i in range(1, len(rs) - 1):
        if rs[i] == "T" and isinstance(rs[i - 1], tuple) and any(isinstance(x, tuple) and x[0] == "P" for x in rs[i + 1 :]):
            ctx.count("timeout_between_packets")
            break
    nontrivial = inside or (p in ends and sum(1 for e in ends if e <= p) >= 2)
    ctx.case(nontrivial, kind, cfg.name, buffered, stream, p, tuple(cuts), tuple(map(str, hist)))
    if why:
        if lost_events and ("undelivered" in why or "expected" in why or "is an" in why):
            # the socket-adapter monitor saw bytes dropped by a receive cancelled in the iteration the data arrived
            ctx.count("attributed_to_recv_into_cancel")
            ctx.violation(
                "asyncio-recv_into-cancel-same-iteration",
                f"[{kind}/{cfg.name}] close at {p}/{len(stream)}: {why}; socket-adapter monitor: {list(lost_events)[:3]}",
                {"kind": kind, "config": cfg.name, "buffered": buffered, "stream": stream, "ends": ends, "p": p, "cuts": cuts, "history": [str(h) for h in hist], "results": [repr(r["r"])[:80] for r in results], "monitor": list(lost_events)[:5], "tag": tag},
            )
            return
        ctx.violation(
            f"{kind}:{'buffered' if buffered else 'copy'}:{'sticky' if 'after end-of-stream' in why or 'again' in why else 'delivery'}",
            f"[{kind}/{cfg.name}/{'buffered' if buffered else 'copy'}] close at {p}/{len(stream)}: {why}",
            {"kind": kind, "config": cfg.name, "buffered": buffered, "stream": stream, "ends": ends, "p": p, "cuts": cuts, "history": [str(h) for h in hist], "results": [repr(r["r"])[:80] for r in results], "tag": tag},
        )


def run_async_endpoint(ctx, cfg, buffered: bool, packets, stream, ends, p, cuts, rng, tag, use_iterator: bool = False) -> None:
    proto = cfg.buffered_protocol() if buffered else cfg.stream_protocol()
    expected = [cfg.expect(x) for x in packets]
    chunks = gen.chunks_from_cuts(stream[:p], [c for c in cuts if c < p])
    script = []
    for c in chunks:
        script.append((rng.choice([0, 0, -1, 0.5, 2.0]), c))
    script.append((rng.choice([0, -2, 0.5, 2.0]), memtransport.EOF))
    hist = _history(rng, len(packets) + len(script) + 2) + [None, 1.0, 0, None, 0]
    inside = _classify_cut(ctx, ends, p, 0)
    results: list = []
    holder: dict = {}

    async def main(loop):
        backend = AsyncIOBackend()
        tr = memtransport.MemStreamTransport(backend)
        tr.hostile_tail = HOSTILE
        holder["tr"] = tr
        ep = AsyncStreamEndpoint(tr, proto, max_recv_size=rng.choice([1, 3, 64, 16384]))
        feed = asyncio.ensure_future(memtransport.feeder(tr.incoming, script))
        for t in hist:
            try:
                if t is None:
                    v = await ep.recv_packet()
                else:
                    with backend.timeout(t):
                        v = await ep.recv_packet()
                r: Any = ("P", v)
            except TimeoutError:
                r = "T"
            except ConnectionAbortedError:
                r = "EOF"
            except Exception as exc:  # noqa: BLE001
                r = ("X", f"{type(exc).__name__}: {exc}")
            handed = sum(e[1] for e in tr.events if e[0] == "recv")
            results.append({"r": r, "handed": handed, "calls": tr.n_recv})
        feed.cancel()
        await ep.aclose()

    try:
        vloop.run(main)
        why = decide(results, expected, ends, p)
    except vloop.Quiescent as exc:
        why = f"deadlock: {exc} after results {[r['r'] for r in results][-3:]}"
    tr = holder.get("tr")
    if why is None and tr is not None and tr.read_after_eof:
        why = "the endpoint read from the transport again after it returned end-of-stream"
    _report(ctx, "async-endpoint", cfg, buffered, stream, ends, p, cuts, hist, results, why, inside, tag)


# ---------------------------------------------------------------------------------------- real sockets


def _tcp_pair() -> tuple[socket.socket, socket.socket]:
    c, s = netutil.tcp_pair(nodelay=False)
    return c, s


def run_sync_client(ctx, cfg, buffered, packets, stream, ends, p, how: str, rng, tag, use_iterator: bool) -> None:
    from easynetwork.clients.tcp import TCPNetworkClient

    proto = cfg.buffered_protocol() if buffered else cfg.stream_protocol()
    expected = [cfg.expect(x) for x in packets]
    csock, peer = _tcp_pair()
    inside = _classify_cut(ctx, ends, p, 0)
    client = TCPNetworkClient(csock, proto, max_recv_size=rng.choice([1, 5, 16384]))
    peer.sendall(stream[:p])
    if how == "shutdown":
        peer.shutdown(socket.SHUT_WR)
    elif how == "close":
        peer.close()
    else:
        import struct

        peer.setsockopt(socket.SOL_SOCKET, socket.SO_LINGER, struct.pack("ii", 1, 0))
        peer.close()
    results = []
    hist: list = []
    try:
        if use_iterator:
            hist = ["iter"]
            got = list(client.iter_received_packets(timeout=rng.choice([None, 5.0])))
            for v in got:
                results.append({"r": ("P", v), "handed": p, "calls": 0})
            hist += [None, 0, 1.0]
        else:
            hist = _history(rng, len(packets) + 1)
        for t in [h for h in hist if h != "iter"] + [None] * (len(packets) + 1) + [None, 1.0, 0, None]:
            try:
                v = client.recv_packet(timeout=t)
                r: Any = ("P", v)
            except TimeoutError:
                r = "T"
            except ConnectionAbortedError:
                r = "EOF"
            except Exception as exc:  # noqa: BLE001
                r = ("X", f"{type(exc).__name__}: {exc}")
            results.append({"r": r, "handed": None if r == "T" else p, "calls": 0})
        why = decide(results, expected, ends, p, reset=(how == "reset"))
    finally:
        client.close()
        try:
            peer.close()
        except OSError:
            pass
    kind = "sync-iterator" if use_iterator else "sync-client"
    _report(ctx, kind, cfg, buffered, stream, ends, p, [how], hist, results, why, inside, tag)


def run_async_client(ctx, cfg, buffered, packets, stream, ends, p, how: str, rng, tag, use_iterator: bool) -> None:
    from easynetwork.clients.async_tcp import AsyncTCPNetworkClient

    proto = cfg.buffered_protocol() if buffered else cfg.stream_protocol()
    expected = [cfg.expect(x) for x in packets]
    inside = _classify_cut(ctx, ends, p, 0)
    results: list = []
    hist: list = []

    async def main(loop):
        nonlocal hist
        csock, peer = _tcp_pair()
        backend = AsyncIOBackend()
        client = AsyncTCPNetworkClient(csock, proto, backend, max_recv_size=rng.choice([1, 5, 16384]))
        await client.wait_connected()
        peer.sendall(stream[:p])
        if how == "shutdown":
            peer.shutdown(socket.SHUT_WR)
        elif how == "close":
            peer.close()
        else:
            import struct

            peer.setsockopt(socket.SOL_SOCKET, socket.SO_LINGER, struct.pack("ii", 1, 0))
            peer.close()
        # let the loop move everything the peer sent into the protocol's internal buffer before the first receive call
        for _ in range(6):
            await asyncio.sleep(0)
        await asyncio.sleep(0.05)
        try:
            if use_iterator:
                hist = ["iter"]
                async for v in client.iter_received_packets(timeout=rng.choice([None, 5.0])):
                    results.append({"r": ("P", v), "handed": p, "calls": 0})
                calls = [None, 0, 1.0]
            else:
                calls = _history(rng, len(packets) + 1)
                hist = list(calls)
            for t in calls + [None] * (len(packets) + 1) + [None, 1.0, 0, None]:
                try:
                    if t is None:
                        v = await client.recv_packet()
                    else:
                        with backend.timeout(t):
                            v = await client.recv_packet()
                    r: Any = ("P", v)
                except TimeoutError:
                    r = "T"
                except ConnectionAbortedError:
                    r = "EOF"
                except Exception as exc:  # noqa: BLE001
                    r = ("X", f"{type(exc).__name__}: {exc}")
                results.append({"r": r, "handed": None if r == "T" else p, "calls": 0})
        finally:
            await client.aclose()
            try:
                peer.close()
            except OSError:
                pass

    sockmon.install()
    sockmon.reset()
    try:
        vloop.run(main)
        why = decide(results, expected, ends, p, reset=(how == "reset"))
    except vloop.Quiescent as exc:
        why = f"deadlock: {exc}"
    kind = "async-iterator" if use_iterator else "async-client"
    # the data is made to settle in the protocol's own buffer before the first receive (see below), so a receive timing out
    # can never coincide with an arrival here: the known C10 mechanism (recv_into cancelled in the arrival iteration) is out of
    # the picture and every loss seen by this check is a fresh violation
    lost = sockmon.lost_events()
    if lost:
        ctx.count("unexpected_cancel_arrival_coincidences")
    _report(ctx, kind, cfg, buffered, stream, ends, p, [how], hist, results, why, inside, tag)


# ---------------------------------------------------------------------------------------- plan

_CFG_NAMES = [
    "line-LF-ascii-strip", "line-CRLF-utf-8-keep", "json-lines-utf8", "json-raw-ascii", "json-raw-converter", "struct-!hIq", "ntstruct-point",
    "b64-urlsafe-sha-0d0a-json", "zlib-1-json", "rawsep-616162-chk", "fixed8", "lenfile", "stapled-json-line",
]


def run_sync_client_second_reader(ctx, rng: random.Random, tag) -> None:
    """the blocking client shared by two threads: one is blocked in recv_packet(timeout=None), the other one polls with a finite or
    zero timeout (or the default iterator) and gets TimeoutError; then the peer sends two packets and closes. The packets are
    delivered once each, in order, to whoever asks, and end-of-stream comes after them"""
    import threading
    import time

    from easynetwork.clients.tcp import TCPNetworkClient
    from easynetwork.protocol import StreamProtocol
    from easynetwork.serializers import StringLineSerializer

    a, b = _tcp_pair()
    client = TCPNetworkClient(a, StreamProtocol(StringLineSerializer()))
    out: dict = {}
    poll = rng.choice(["recv0", "recv0.05", "iter0"])

    def t1():
        try:
            out["first"] = ("pkt", client.recv_packet(timeout=None))
        except BaseException as exc:  # noqa: BLE001
            out["first"] = ("exc", f"{type(exc).__name__}: {exc}")

    th = threading.Thread(target=t1, daemon=True)
    th.start()
    time.sleep(0.05)
    polled = []
    for _ in range(rng.randint(1, 3)):
        try:
            if poll == "iter0":
                polled.append(("pkts", list(client.iter_received_packets(timeout=0))))
            else:
                polled.append(("pkt", client.recv_packet(timeout=0 if poll == "recv0" else 0.05)))
        except TimeoutError:
            polled.append(("timeout",))
        except BaseException as exc:  # noqa: BLE001
            polled.append(("exc", f"{type(exc).__name__}: {exc}"))
    b.sendall(b"A\nB\n")
    th.join(20)
    rest = []
    if not th.is_alive():
        b.close()
        for _ in range(3):
            try:
                rest.append(("pkt", client.recv_packet(timeout=5)))
            except ConnectionAbortedError:
                rest.append(("eof",))
                break
            except BaseException as exc:  # noqa: BLE001
                rest.append(("exc", f"{type(exc).__name__}: {exc}"))
                break
    else:
        b.close()
    try:
        client.close()
    except Exception:  # noqa: BLE001
        pass
    ctx.count("second_reader_polls_while_first_is_blocked")
    ctx.case(True, "sync-client-second-reader", poll, len(polled))
    why = None
    if th.is_alive():
        why = "the blocked recv_packet(timeout=None) never returned although two packets were sent"
    elif any(x[0] == "exc" for x in polled):
        why = f"the polling thread got {[x for x in polled if x[0] == 'exc'][0][1]} instead of TimeoutError"
    else:
        delivered = [x[1] for x in polled if x[0] == "pkt"] + [y for x in polled if x[0] == "pkts" for y in x[1]]
        seq = delivered + ([out["first"][1]] if out.get("first", ("", ""))[0] == "pkt" else []) + [x[1] for x in rest if x[0] == "pkt"]
        if out.get("first", ("",))[0] == "exc":
            why = f"the blocked recv_packet(timeout=None) raised {out['first'][1]} after another thread's poll ({poll}) had timed out; packets delivered afterwards: {[x[1] for x in rest if x[0] == 'pkt']}"
        elif seq != ["A", "B"]:
            why = f"packets sent A, B; delivered {seq} (poll={poll}, polled={polled}, rest={rest})"
        elif not rest or rest[-1][0] != "eof":
            why = f"end-of-stream was not reported after the two packets: {rest}"
    if why:
        ctx.violation("second-reader:sync-client", f"[TCPNetworkClient, two reader threads] {why}", {"kind": "second-reader", "config": "line", "tag": tag})


def plan(tier: str, seed: int) -> list[dict]:
    iters = 6 if tier == "quick" else 120
    return [{"seed": seed * 1000 + k, "iters": iters, "sockets": 6 if tier == "quick" else 60} for k in range(16)]


def run_shard(params: dict, ctx) -> None:
    rng = random.Random(params["seed"])
    for k in range(3):
        run_sync_client_second_reader(ctx, rng, [params["seed"], "second-reader", k])
    cfgs = [gen.config_by_name(n) for n in _CFG_NAMES]
    for cfg in cfgs:
        can_buf = cfg.is_buffered()
        for it in range(params["iters"]):
            if ctx.should_stop(200):
                return
            packets = [cfg.gen_packet(rng) for _ in range(rng.choice([1, 2, 3, 4]))]
            stream, ends, _ = drive.produce(cfg.stream_protocol(), packets)
            positions = list(range(0, len(stream) + 1)) if len(stream) <= 40 else sorted(set([0, len(stream)] + ends + [e - 1 for e in ends] + [e + 1 for e in ends if e < len(stream)] + [rng.randrange(len(stream)) for _ in range(8)]))
            for p in positions:
                cuts = gen.random_cuts(rng, max(p, 1))
                buffered = can_buf and rng.random() < 0.5
                if p in ends and sum(1 for e in ends if e <= p) >= 2 and not any(c for c in cuts if c < p):
                    ctx.count("eof_at_boundary_two_buffered")
                run_sync_endpoint(ctx, cfg, buffered, packets, stream, ends, p, cuts, rng, [params["seed"], it])
                buffered = can_buf and rng.random() < 0.5
                run_async_endpoint(ctx, cfg, buffered, packets, stream, ends, p, cuts, rng, [params["seed"], it])
            if it == 0:
                ctx.sample({"config": cfg.name, "stream": stream[:60], "ends": ends, "close_positions": positions[:12], "history": "recv_packet(timeout in {None,1.0,0}) ... + 5 extra calls"})
        for it in range(params["sockets"]):
            packets = [cfg.gen_packet(rng) for _ in range(rng.choice([1, 2, 3]))]
            stream, ends, _ = drive.produce(cfg.stream_protocol(), packets)
            p = rng.choice([0, len(stream)] + ends + [rng.randrange(len(stream) + 1)])
            how = rng.choice(["shutdown", "close", "reset"])
            buffered = can_buf and rng.random() < 0.5
            run_sync_client(ctx, cfg, buffered, packets, stream, ends, p, how, rng, [params["seed"], "sock", it], use_iterator=it % 3 == 0)
            run_async_client(ctx, cfg, buffered, packets, stream, ends, p, how, rng, [params["seed"], "asock", it], use_iterator=it % 3 == 1)


def replay(witness: dict, ctx) -> None:
    if witness.get("kind") == "second-reader":
        for k in range(5):
            run_sync_client_second_reader(ctx, random.Random(k), witness.get("tag"))
        return
    # deterministic re-run of the same shard position is not possible from the witness alone; re-run the kind with the
    # recorded stream/cut over a few seeds
    cfg = gen.config_by_name(witness["config"])
    stream = bytes.fromhex(witness["stream"]["hex"])
    ends = witness["ends"]
    # recover packets by decoding the stream with the copy consumer
    out, _ = drive.drive_copy(cfg.stream_protocol(), [stream])
    packets_expected = [o[1] for o in out]

    class _C:
        pass

    for s in range(20):
        rng = random.Random(s)
        fake = gen.Config(cfg.name, cfg.factory, cfg.gen_packet, cfg.converter, cfg.separator, cfg.has_limit, cfg.kind, cfg.inner_pickle, (lambda x: x))
        kind = witness["kind"]
        if kind == "sync-endpoint":
            run_sync_endpoint(ctx, fake, witness["buffered"], packets_expected, stream, ends, witness["p"], witness["cuts"], rng, "replay")
        elif kind == "async-endpoint":
            run_async_endpoint(ctx, fake, witness["buffered"], packets_expected, stream, ends, witness["p"], witness["cuts"], rng, "replay")
        elif kind in ("sync-client", "sync-iterator"):
            run_sync_client(ctx, fake, witness["buffered"], packets_expected, stream, ends, witness["p"], witness["cuts"][0], rng, "replay", kind == "sync-iterator")
        else:
            run_async_client(ctx, fake, witness["buffered"], packets_expected, stream, ends, witness["p"], witness["cuts"][0], rng, "replay", kind == "async-iterator")
        if ctx.violations:
            return
