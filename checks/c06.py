"""C06 — malformed network input only ever surfaces as a parse error.

Monitor: exception-type totality + progress. Every input is pushed through the one-shot path (DatagramProtocol),
the copying consumer and the buffer-filling consumer; the only outcomes allowed are a packet, "need more data",
or a protocol parse error carrying the unread remainder. Each error must consume at least one byte, a receive loop
that skips errors must terminate, and no case may burn more than the CPU budget.
"""

from __future__ import annotations

import base64
import bz2
import random
import zlib
from typing import Any

from easynetwork.exceptions import DatagramProtocolParseError, StreamProtocolParseError
from easynetwork.lowlevel._stream import BufferedStreamDataConsumer, StreamDataConsumer

from vlib import drive, gen
from vlib.runner import HangDetected, cpu_guard

PROPERTY = "C06"
LEVEL = "exploration"
RULE = (
    "case = (serializer configuration, input bytes, mode in {one-shot, copying consumer, buffer-filling consumer}, chunking); "
    "inputs: uniform random bytes, mutated valid streams (truncate, bit flip, delete/duplicate/insert, separator games, invalid "
    "UTF-8, frame swap), structural extremes up to the 64 KiB limit (nesting depth 10..30000, 60 KiB tokens, backslash runs). "
    "non-trivial = the input is not a valid stream (at least one mutation applied or random/extreme) and reached a decoder "
    "(produced an error or a packet); distinct = distinct (config, mode, input) signatures"
)
ASSUMPTIONS = [
    "pickle is fuzzed only through a restricted Unpickler whose find_class refuses every global (mutated pickles cannot execute code)",
    "hang = more than 20 s of user CPU time for one case (inputs <= 64 KiB); wall-clock time is never a verdict",
    "cbor / msgpack / encryptor serializers not exercised (dependencies absent)",
    "harness subclasses of the public base classes raise only their declared errors from deserialize()/load_from_file()",
    "pickle inputs whose opcodes make the unpickler allocate by a number taken from the input (memo index > 100000, oversized FRAME) are skipped: that is pickle's documented unsafety, not a property of the library",
]
REQUIRED = [
    "errors_seen:line",
    "errors_seen:json",
    "errors_seen:struct",
    "errors_seen:ntstruct",
    "errors_seen:b64",
    "errors_seen:zlib",
    "errors_seen:bz2",
    "errors_seen:picklefile",
    "errors_seen:lenfile",
    "errors_seen:rawsep",
    "nesting_beyond_recursion_limit",
    "three_consecutive_errors",
    "mode_oneshot",
    "mode_copy",
    "mode_buffered",
    "long_number_tokens",
]
WATCHDOG = {"quick": 1200, "thorough": 7200}
CPU_BUDGET = 20


def _fam(cfg: gen.Config) -> str:
    return cfg.name.split("-")[0]


# ------------------------------------------------------------------------------------------- inputs


def mutate(rng: random.Random, data: bytes, sep: bytes | None) -> bytes:
    b = bytearray(data)
    for _ in range(rng.randint(1, 3)):
        k = rng.randrange(10)
        if k == 0 and b:
            del b[rng.randrange(len(b)) :]
        elif k == 1 and b:
            i = rng.randrange(len(b))
            b[i] ^= 1 << rng.randrange(8)
        elif k == 2 and b:
            del b[rng.randrange(len(b))]
        elif k == 3 and b:
            i = rng.randrange(len(b))
            j = min(len(b), i + rng.randint(1, 8))
            b[i:i] = b[i:j]
        elif k == 4:
            i = rng.randint(0, len(b))
            b[i:i] = bytes(rng.getrandbits(8) for _ in range(rng.randint(1, 6)))
        elif k == 5 and sep:
            i = rng.randint(0, len(b))
            b[i:i] = sep * rng.randint(1, 3)
        elif k == 6 and sep and sep in b:
            i = bytes(b).find(sep)
            del b[i : i + len(sep)]
        elif k == 7:
            i = rng.randint(0, len(b))
            b[i:i] = rng.choice([b"\xc0\xaf", b"\xed\xa0\x80", b"\xf4\x90\x80\x80", b"\xe2\x82", b"\xff", b"\xfe\xff", b"\x80"])
        elif k == 8 and len(b) > 4:
            i = rng.randrange(1, len(b) - 1)
            b[:] = b[i:] + b[:i]
        elif k == 9 and b:
            i = rng.randrange(len(b))
            b[i] = rng.choice(b'"\\{}[]\n\r=\x00')
    return bytes(b)


def json_extremes(rng: random.Random) -> list[tuple[str, bytes]]:
    out = []
    d = rng.choice([10, 100, 900, 1100, 5000, 30000])
    out.append((f"nest[{d}", b"[" * d + b"]" * d))
    out.append((f"nest[{d}-open", b"[" * d))
    d2 = rng.choice([10, 500, 1200, 12000])
    out.append((f"nest{{{d2}", b'{"a":' * d2 + b"1" + b"}" * d2))
    n = rng.choice([100, 4300, 4301, 5000, 60000])
    out.append((f"digits{n}", b"1" * n))
    out.append((f"digits-in-array{n}", b"[" + b"9" * n + b"]"))
    out.append((f"neg-digits{n}", b"-" + b"7" * n))
    out.append((f"float-digits{n}", b"0." + b"3" * n))
    m = rng.choice([10, 1001, 60000])
    out.append((f"backslashes{m}", b'"' + b"\\" * m + b'"'))
    out.append((f"backslashes-odd{m}", b'["' + b"\\" * (m | 1) + b'"]'))
    out.append((f"quotes{m}", b'"' * m))
    out.append(("lone-quote", b'"'))
    out.append((f"closers{m}", b"]" * m))
    out.append((f"string{m}", b'"' + b"a" * m + b'"'))
    return out


def extremes_for(cfg: gen.Config, rng: random.Random) -> list[tuple[str, bytes]]:
    fam = _fam(cfg)
    items: list[tuple[str, bytes]] = []
    if fam == "json" or cfg.name.startswith("stapled"):
        for label, doc in json_extremes(rng):
            items.append((label, doc + (b"\n" if cfg.kind == "sep" else b"")))
    elif fam == "b64" and not cfg.inner_pickle:
        enc = base64.standard_b64encode if "standard" in cfg.name else base64.urlsafe_b64encode
        for label, doc in json_extremes(rng):
            if len(doc) <= 45000 and "sha" not in cfg.name and "key" not in cfg.name:
                items.append((label, enc(doc) + cfg.separator))
    elif fam in ("zlib", "bz2") and cfg.name.endswith("json"):
        comp = zlib.compress if fam == "zlib" else bz2.compress
        for label, doc in json_extremes(rng):
            items.append((label, comp(doc)))
        items.append(("bomb-1MiB", comp(b"[" + b"0," * 500000 + b"0]")))
    if cfg.inner_pickle or fam == "picklefile":
        n = rng.choice([10, 1000, 20000])
        raw = b"\x80\x04" + b"]" * n + b"a" * (n - 1) + b"."
        raw2 = b"\x80\x04" + b"(" * n + b"t" * n + b"."
        for label, doc in ((f"pickle-nest{n}", raw), (f"pickle-marks{n}", raw2), ("pickle-global", b"cos\nsystem\n(S'true'\ntR."), ("pickle-huge-len", b"\x80\x04\x8e\xff\xff\xff\xff\xff\xff\xff\x7f."), ("pickle-long", b"\x80\x04\x8b\xff\xff\xff\x7f" + b"\x01" * 20 + b".")):
            if fam == "b64":
                items.append((label, base64.urlsafe_b64encode(doc) + cfg.separator))
            elif fam in ("zlib", "bz2"):
                items.append((label, (zlib.compress if fam == "zlib" else bz2.compress)(doc)))
            else:
                items.append((label, doc))
    if fam in ("line", "rawsep"):
        items.append(("long-line-60000", b"a" * 60000 + cfg.separator))
        items.append(("only-separators", cfg.separator * 50))
        items.append(("unterminated-70000", b"b" * 70000))
    return items


# ------------------------------------------------------------------------------------------- monitors


def _check_exc(exc: BaseException) -> str | None:
    """returns a description if exc is not an allowed outcome"""
    if isinstance(exc, StreamProtocolParseError):
        if not hasattr(exc, "remaining_data"):
            return "StreamProtocolParseError without remaining_data"
        try:
            memoryview(exc.remaining_data)
        except TypeError:
            return f"remaining_data is not a buffer: {type(exc.remaining_data).__name__}"
        return None
    cause = exc.__cause__
    orig = f" (caused by {type(cause).__name__}: {str(cause)[:120]})" if cause is not None else ""
    return f"{type(exc).__name__}: {str(exc)[:120]}{orig}"


def _mech(cfg: gen.Config, exc: BaseException) -> str:
    """mechanism key: root exception class + the innermost easynetwork source file it travelled through"""
    import traceback

    root = exc.__cause__ if isinstance(exc, RuntimeError) and exc.__cause__ is not None else exc
    origin = "?"
    for fs in reversed(traceback.extract_tb(root.__traceback__)):
        if "easynetwork" in fs.filename:
            origin = fs.filename.split("easynetwork/")[-1]
            break
    return f"foreign-exception:{type(root).__name__}@{origin}"


def run_stream(ctx, cfg: gen.Config, data: bytes, cuts: list[int], mode: str, hint: int, limit: int | None) -> tuple[int, int, Any]:
    """returns (packets, errors, violation|None)"""
    npk = nerr = 0
    consecutive = 0
    if mode == "copy":
        consumer: Any = StreamDataConsumer(cfg.stream_protocol(limit))
        chunks = gen.chunks_from_cuts(data, cuts) if data else []
        fed = 0
        consumed_at_last_output = 0
        for idx in range(len(chunks) + 1):
            chunk = chunks[idx] if idx < len(chunks) else None
            first = True
            budget = len(data) + 3
            consecutive = 0
            while True:
                budget -= 1
                if budget < 0:
                    return npk, nerr, ("no-progress", "receive loop skipping errors did not terminate within len(input)+2 calls", None)
                if first and chunk:
                    fed += len(chunk)
                try:
                    consumer.next(chunk if first else None)
                    npk += 1
                    consecutive = 0
                    consumed_at_last_output = fed - len(consumer.get_buffer())
                except StopIteration:
                    break
                except StreamProtocolParseError as exc:
                    bad = _check_exc(exc)
                    if bad:
                        return npk, nerr, ("bad-error", bad, exc)
                    nerr += 1
                    consecutive += 1
                    if consecutive == 3:
                        ctx.count("three_consecutive_errors")
                    consumed_now = fed - len(consumer.get_buffer())
                    if consumed_now <= consumed_at_last_output:
                        return npk, nerr, ("error-consumed-nothing", f"a parse error consumed no byte ({consumed_now} consumed in total, {consumed_at_last_output} at the previous output)", exc)
                    consumed_at_last_output = consumed_now
                except BaseException as exc:  # noqa: BLE001
                    if isinstance(exc, HangDetected):
                        raise
                    return npk, nerr, ("foreign", _check_exc(exc), exc)
                finally:
                    first = False
        return npk, nerr, None
    # buffered
    proto = cfg.buffered_protocol(limit)
    consumer = BufferedStreamDataConsumer(proto, hint)
    fills = gen.fills_from_cuts(len(data), cuts) if data else [1]
    pos = 0
    i = 0
    total_calls = 0
    while True:
        n = None
        if pos < len(data):
            fill = fills[i % len(fills)]
            i += 1
            try:
                with memoryview(consumer.get_write_buffer()) as view:
                    n = min(view.nbytes, fill, len(data) - pos)
                    view[:n] = data[pos : pos + n]
            except BaseException as exc:  # noqa: BLE001
                if isinstance(exc, HangDetected):
                    raise
                return npk, nerr, ("foreign", _check_exc(exc), exc)
            pos += n
        first = True
        consecutive = 0
        while True:
            total_calls += 1
            if total_calls > 2 * len(data) + 10:
                return npk, nerr, ("no-progress", "receive loop skipping errors did not terminate within 2*len(input)+10 calls", None)
            try:
                consumer.next(n if first else None)
                npk += 1
                consecutive = 0
            except StopIteration:
                break
            except StreamProtocolParseError as exc:
                bad = _check_exc(exc)
                if bad:
                    return npk, nerr, ("bad-error", bad, exc)
                nerr += 1
                consecutive += 1
                if consecutive == 3:
                    ctx.count("three_consecutive_errors")
            except BaseException as exc:  # noqa: BLE001
                if isinstance(exc, HangDetected):
                    raise
                return npk, nerr, ("foreign", _check_exc(exc), exc)
            finally:
                first = False
        if pos >= len(data) and n is None:
            break
        if pos >= len(data):
            # one more drain round with None happens in the next iteration (n = None)
            continue
    return npk, nerr, None


def run_oneshot(ctx, cfg: gen.Config, data: bytes) -> tuple[int, int, Any]:
    proto = cfg.datagram_protocol()
    try:
        proto.build_packet_from_datagram(data)
        return 1, 0, None
    except DatagramProtocolParseError as exc:
        if not hasattr(exc, "error"):
            return 0, 1, ("bad-error", "DatagramProtocolParseError without .error", exc)
        return 0, 1, None
    except BaseException as exc:  # noqa: BLE001
        if isinstance(exc, HangDetected):
            raise
        return 0, 0, ("foreign", _check_exc(exc), exc)


def _pickle_resource_bomb(data: bytes) -> bool:
    """pickle's own documented unsafety (not the library's): memo opcodes make the unpickler size its memo table by an index
    taken from the input (LONG_BINPUT 0x63a9541b -> a 13 GB table, minutes of CPU). After a parse error the stream is re-parsed
    from arbitrary offsets, so the screen is purely lexical and conservative: any 'r'/'j' opcode byte followed by a 32-bit value
    > 100000, or 'p'/'g' followed by six or more digits, disqualifies the input for pickle-based configurations."""
    for i, b in enumerate(data):
        if b in (0x72, 0x6A) and i + 5 <= len(data) and int.from_bytes(data[i + 1 : i + 5], "little") > 100_000:
            return True
        if b in (0x70, 0x67) and data[i + 1 : i + 7].isdigit() and len(data[i + 1 : i + 7]) == 6:
            return True
    return False


def _maybe_unwrap(cfg: gen.Config, data: bytes) -> bytes:
    """inner bytes as the pickle layer could see them (best effort) for wrapped pickle configurations"""
    fam = _fam(cfg)
    out = data
    try:
        if fam == "b64":
            out = data + b"".join(base64.urlsafe_b64decode(part + b"=" * (-len(part) % 4)) for part in data.replace(b"\r\n", b"\n").split(b"\n") if part)
        elif fam == "zlib":
            out = data + zlib.decompressobj().decompress(data)
        elif fam == "bz2":
            out = data + bz2.BZ2Decompressor().decompress(data)
    except Exception:  # noqa: BLE001
        pass
    return out


def one_input(ctx, cfg: gen.Config, label: str, data: bytes, rng: random.Random, tag: Any, mutated: bool, limit: int | None = None) -> None:
    fam = _fam(cfg)
    if (cfg.inner_pickle or fam == "picklefile") and _pickle_resource_bomb(_maybe_unwrap(cfg, data)):
        ctx.count("pickle_resource_bombs_skipped")
        return
    modes = ["oneshot", "copy"] + (["buffered"] if cfg.is_buffered() else [])
    for mode in modes:
        cuts = gen.random_cuts(rng, len(data)) if len(data) < 5000 else sorted(rng.sample(range(1, len(data)), rng.choice([0, 1, 3, 40])))
        hint = rng.choice(gen.HINTS) if len(data) < 5000 else rng.choice([1024, 16384, 65536])  # big inputs: no 1-byte buffers (quadratic re-parsing is slow, not a hang)
        ctx.count(f"mode_{mode}")
        viol = None
        npk = nerr = 0
        try:
            with cpu_guard(CPU_BUDGET):
                if mode == "oneshot":
                    npk, nerr, viol = run_oneshot(ctx, cfg, data)
                else:
                    npk, nerr, viol = run_stream(ctx, cfg, data, cuts, mode, hint, limit)
        except HangDetected as exc:
            viol = ("hang", str(exc), None)
        ctx.case(mutated and (npk + nerr > 0), cfg.name, mode, data)
        if nerr:
            ctx.count(f"errors_seen:{fam}", nerr)
        if viol is not None:
            kind, what, exc = viol
            if kind == "foreign" and exc is not None:
                key = _mech(cfg, exc)
            else:
                key = f"{kind}:{fam}"
            ctx.violation(
                key,
                f"{cfg.name} [{mode}] input '{label}' ({len(data)} bytes): {what}",
                {"config": cfg.name, "mode": mode, "label": label, "data": data if len(data) <= 4096 else None, "data_len": len(data), "cuts": cuts if len(cuts) < 200 else None, "hint": hint, "tag": tag, "limit": limit},
            )


def plan(tier: str, seed: int) -> list[dict]:
    iters = 25 if tier == "quick" else 700
    return [{"seed": seed * 1000 + k, "iters": iters, "extremes": k % 4 == 0 or tier == "thorough"} for k in range(16)]


def run_shard(params: dict, ctx) -> None:
    import sys

    rng = random.Random(params["seed"])
    cfgs = gen.all_configs()
    reclimit = sys.getrecursionlimit()
    for cfg in cfgs:
        if ctx.should_stop(500):
            return
        sproto = cfg.stream_protocol()
        for it in range(params["iters"]):
            k = rng.randrange(4)
            if k == 0:
                data = bytes(rng.getrandbits(8) for _ in range(rng.randint(0, 200)))
                label = "random"
            else:
                packets = [cfg.gen_packet(rng) for _ in range(rng.randint(1, 3))]
                stream, ends, _ = drive.produce(sproto, packets)
                data = mutate(rng, stream, cfg.separator)
                label = "mutated"
            one_input(ctx, cfg, label, data, rng, [params["seed"], it], True)
            if it == 0 and len(ctx.samples) < 4:
                ctx.sample({"config": cfg.name, "label": label, "data": data[:80]})
        if params.get("extremes"):
            for label, data in extremes_for(cfg, rng):
                if label.startswith("nest") and int("".join(ch for ch in label.split("-")[0] if ch.isdigit())) > reclimit:
                    ctx.count("nesting_beyond_recursion_limit")
                if label.startswith(("digits", "neg-digits", "float-digits")):
                    ctx.count("long_number_tokens")
                ctx.count("extreme_inputs")
                one_input(ctx, cfg, label, data, rng, [params["seed"], label], True)


def replay(witness: dict, ctx) -> None:
    cfg = gen.config_by_name(witness["config"])
    rng = random.Random(0)
    if witness.get("data") is not None:
        data = bytes.fromhex(witness["data"]["hex"])
        one_input(ctx, cfg, witness["label"], data, rng, "replay", True, witness.get("limit"))
        return
    # large extreme inputs are regenerated from their label
    for seed in range(200):
        r = random.Random(seed)
        for label, data in extremes_for(cfg, r):
            if label == witness["label"] and len(data) == witness["data_len"]:
                one_input(ctx, cfg, label, data, rng, "replay", True, witness.get("limit"))
                return
