"""C18 — server lifecycle operations are safe in every order.

Monitor: generated lifecycle histories (serve_forever, shutdown, server_close, server_activate, connect-and-echo, is_serving /
is_listening probes) issued by 1-3 tasks on the virtual-time loop against the asynchronous TCP and UDP servers (with delays
injected inside the start-up and tear-down windows: listener creation, service_init, a slow on_disconnection), and by 1-3
threads against the standalone servers / NetworkServerThread with injected thread switches. Every call and return is logged on
one event counter; a history checker applies interval rules (a)-(g) of DESIGN.md section 3 / C18; the virtual loop going quiescent
with a pending call is the deadlock verdict; for threads a call exceeding its watchdog triggers two stack samples 3 s apart.
Template histories add systematic grids (tear-down / start-up offsets, floods, serve-echo-shutdown repeated, restart on a fixed
address with the previous run's connections in TIME_WAIT); directed preemption pauses one thread at each line of the lifecycle functions.
"""

from __future__ import annotations

import asyncio
import os
import random
import socket
import sys
import threading
import time
import traceback
from typing import Any

from easynetwork.exceptions import ServerAlreadyRunning, ServerClosedError
from easynetwork.lowlevel.api_async.backend._asyncio.backend import AsyncIOBackend
from easynetwork.protocol import DatagramProtocol, StreamProtocol
from easynetwork.serializers import StringLineSerializer
from easynetwork.servers.async_tcp import AsyncTCPNetworkServer
from easynetwork.servers.async_udp import AsyncUDPNetworkServer
from easynetwork.servers.handlers import AsyncDatagramRequestHandler, AsyncStreamRequestHandler

from vlib import preempt, netutil, vloop, yieldinject

PROPERTY = "C18"
LEVEL = "exploration"
RULE = (
    "case = one history: <= 8 lifecycle operations from {serve_forever, shutdown, server_close, server_activate, echo, probe} distributed "
    "over 1..3 tasks (async TCP / UDP servers, virtual time, delays of 0..0.5 s between operations and inside listener creation, "
    "service_init and on_disconnection) or 1..3 threads (standalone TCP / UDP servers, NetworkServerThread, injected thread switches). "
    "non-trivial = >= 2 tasks/threads and at least one lifecycle operation overlapped another in the event order; distinct = distinct "
    "(server kind, history, delays)"
)
ASSUMPTIONS = [
    "interval rules are evaluated on a single monotonic event counter (call / return events)",
    "thread histories: a call exceeding its 150 s watchdog is a deadlock only if two stack samples 3 s apart show every participating thread parked on the same lines inside easynetwork frames; otherwise the run is inconclusive",
]
REQUIRED = [
    "kind:async-tcp",
    "kind:async-udp",
    "kind:standalone-tcp",
    "kind:standalone-udp",
    "kind:server-thread",
    "already_running_refusals",
    "closed_refusals",
    "serve_again_after_shutdown",
    "echo_ok",
    "listeners_closed_checked",
    "overlapping_histories",
    "shutdown_while_starting",
    "shutdown_waited_for_teardown",
    "shutdown_during_teardown",
    "server_thread_pause_points_reached",
    "fixed_port_restarts_checked",
]
WATCHDOG = {"quick": 1500, "thorough": 7200}
OPS = ["serve", "serve", "shutdown", "shutdown", "close", "activate", "echo", "hold", "probe"]


def _fixed_port(host: str, udp: bool) -> int:
    """a currently free port below the kernel's ephemeral range (no other process is handed it by a bind to port 0 or a connect)"""
    rng = random.Random(os.getpid() * 7919 + time.monotonic_ns())
    for _ in range(200):
        port = rng.randrange(20000, 32000)
        probe = socket.socket(socket.AF_INET, socket.SOCK_DGRAM if udp else socket.SOCK_STREAM)
        try:
            probe.bind((host, port))
            return port
        except OSError:
            continue
        finally:
            probe.close()
    raise RuntimeError("no free port found")


class EchoStream(AsyncStreamRequestHandler):
    def __init__(self, init_delay: float, disc_delay: float, close_after: bool = False) -> None:
        self.init_delay, self.disc_delay = init_delay, disc_delay
        self.close_after = close_after  # the server's end closes first: it is the one left in TIME_WAIT on the listening address

    async def service_init(self, exit_stack, server):
        if self.init_delay:
            await asyncio.sleep(self.init_delay)

    async def handle(self, client):
        req = yield
        await client.send_packet(req)
        if self.close_after:
            await client.aclose()

    async def on_disconnection(self, client):
        if self.disc_delay:
            await asyncio.sleep(self.disc_delay)


class EchoDgram(AsyncDatagramRequestHandler):
    def __init__(self, init_delay: float, work: float = 0.0) -> None:
        self.init_delay = init_delay
        self.work = work  # handling time per datagram: more datagrams of the same client queue up behind a busy handler

    async def service_init(self, exit_stack, server):
        if self.init_delay:
            await asyncio.sleep(self.init_delay)

    async def handle(self, client):
        req = yield
        if self.work:
            await asyncio.sleep(self.work)
        await client.send_packet(req)


class SlowBackend(AsyncIOBackend):
    def __init__(self, listen_delay: float) -> None:
        super().__init__()
        self._d = listen_delay

    async def create_tcp_listeners(self, *a, **kw):
        if self._d:
            await asyncio.sleep(self._d)
        return await super().create_tcp_listeners(*a, **kw)

    async def create_udp_listeners(self, *a, **kw):
        if self._d:
            await asyncio.sleep(self._d)
        return await super().create_udp_listeners(*a, **kw)


def gen_history(rng: random.Random) -> dict:
    ntasks = rng.randint(1, 3)
    nops = rng.randint(2, 8)
    ops = []
    for _ in range(nops):
        ops.append({"task": rng.randrange(ntasks), "op": rng.choice(OPS), "delay": rng.choice([0, 0, 0.1, 0.25, 0.5])})
    return {
        "udp": rng.random() < 0.35,
        "ops": ops,
        "listen_delay": rng.choice([0, 0, 0.25]),
        "init_delay": rng.choice([0, 0, 0.25]),
        "disc_delay": rng.choice([0, 0, 0.25]),
        "ntasks": ntasks,
    }


def template_histories() -> list[dict]:
    """systematic asynchronous histories: a second lifecycle call placed at a grid of offsets inside the tear-down window (a stop
    request with 0..2 connected clients and a slow on_disconnection) and inside the start-up window (slow listener creation / service_init)"""
    out = []
    offs = [0, 0.05, 0.1, 0.2, 0.25, 0.3]
    for udp in (False, True):
        for y in ("shutdown", "serve", "close", "probe", "echo"):
            for d in offs:
                for disc in (0, 0.25):
                    for nheld in (0, 1, 2):
                        for stop in ("shutdown", "close"):
                            if udp and (nheld == 2 or disc):
                                continue
                            ops = [{"task": 0, "op": "serve", "delay": 0}]
                            t = 0.0
                            for j in range(nheld):
                                ops.append({"task": 0, "op": "hold", "delay": 0.5 if j == 0 else 0})
                                t = 0.5
                            ops.append({"task": 0, "op": stop, "delay": 0.1})
                            t += 0.1
                            ops.append({"task": 1, "op": y, "delay": t + d})
                            ops.append({"task": 0, "op": "serve", "delay": 0})  # and serve again right after the stop returned
                            out.append({"udp": udp, "ops": ops, "listen_delay": 0, "init_delay": 0, "disc_delay": disc, "ntasks": 2, "template": f"teardown:{stop}:{y}@{d}:held{nheld}:disc{disc}"})
        for nruns in (2, 3):
            ops = []
            for _r in range(nruns):
                ops += [{"task": 0, "op": "serve", "delay": 0.1}, {"task": 0, "op": "echo", "delay": 0.5}, {"task": 0, "op": "shutdown", "delay": 0.1}]
            out.append({"udp": udp, "ops": ops, "listen_delay": 0, "init_delay": 0, "disc_delay": 0, "ntasks": 1, "template": f"serve-echo-shutdown-x{nruns}"})
        for nruns in (2, 3):
            for sc in (False, True):
                # the same address at every run (the documented way to run a service): the earlier run's connections, closed by
                # either end first, are still in TIME_WAIT on it when the listeners are created again
                ops = []
                for _r in range(nruns):
                    ops += [{"task": 0, "op": "serve", "delay": 0.1}, {"task": 0, "op": "echo", "delay": 0.5}, {"task": 0, "op": "echo", "delay": 0.1}, {"task": 0, "op": "shutdown", "delay": 0.1}]
                out.append({"udp": udp, "ops": ops, "listen_delay": 0, "init_delay": 0, "disc_delay": 0, "ntasks": 1, "fixed_port": True, "server_closes": sc, "template": f"restart-on-fixed-port:{'server' if sc else 'client'}-closes-first:x{nruns}"})
        for stop in ("shutdown", "close"):
            for d in (0.05, 0.1, 0.3):
                ops = [{"task": 0, "op": "serve", "delay": 0}, {"task": 0, "op": "flood", "delay": 0.5}, {"task": 0, "op": stop, "delay": d}, {"task": 0, "op": "serve", "delay": 0}]
                out.append({"udp": udp, "ops": ops, "listen_delay": 0, "init_delay": 0, "disc_delay": 0, "work": 0.25, "ntasks": 1, "template": f"flood-then-{stop}@{d}"})
        for y in ("shutdown", "close", "serve", "activate"):
            for d in offs:
                for ld in (0, 0.25):
                    for idl in (0, 0.25):
                        ops = [{"task": 0, "op": "serve", "delay": 0}, {"task": 1, "op": y, "delay": d}, {"task": 1, "op": "probe", "delay": 0.6}]
                        out.append({"udp": udp, "ops": ops, "listen_delay": ld, "init_delay": idl, "disc_delay": 0, "ntasks": 2, "template": f"startup:{y}@{d}:listen{ld}:init{idl}"})
    return out


def thread_template_histories() -> list[dict]:
    """sequential histories for the standalone servers (each serve call is waited for before the next call)"""
    out = []
    for udp in (False, True):
        for nruns in (2, 3):
            for sc in (False, True):
                ops = []
                for _r in range(nruns):
                    ops += [{"task": 0, "op": "serve", "delay": 0, "wait_up": True}, {"task": 0, "op": "echo", "delay": 0.1}, {"task": 0, "op": "echo", "delay": 0}, {"task": 0, "op": "shutdown", "delay": 0.1}]
                out.append({"udp": udp, "ops": ops, "listen_delay": 0, "init_delay": 0, "disc_delay": 0, "ntasks": 1, "fixed_port": True, "server_closes": sc, "template": f"standalone-restart-on-fixed-port:{'server' if sc else 'client'}-closes-first:x{nruns}"})
    return out


class _Up:
    def __init__(self, cb) -> None:
        self.cb = cb

    def set(self) -> None:
        self.cb()


def run_async_history(h: dict) -> dict:
    events: list = []
    res: dict[str, Any] = {"events": events}

    def ev(kind: str, **kw) -> int:
        kw["k"] = kind
        kw["i"] = len(events)
        events.append(kw)
        return kw["i"]

    async def main(loop):
        backend = SlowBackend(h["listen_delay"])
        host = netutil.rand_loopback()
        port = _fixed_port(host, h["udp"]) if h.get("fixed_port") else 0
        if h["udp"]:
            server: Any = AsyncUDPNetworkServer(host, port, DatagramProtocol(StringLineSerializer()), EchoDgram(h["init_delay"], h.get("work", 0.0)), backend, logger=_quiet())
        else:
            server = AsyncTCPNetworkServer(host, port, StreamProtocol(StringLineSerializer()), EchoStream(h["init_delay"], h["disc_delay"], bool(h.get("server_closes"))), backend, logger=_quiet())
        serve_tasks: list = []
        captured_socks: list = []

        async def op_serve(cid: int):
            def up():
                ev("up", call=cid)
                try:
                    for sp in server.get_sockets():
                        captured_socks.append(sp)
                except Exception:  # noqa: BLE001
                    pass

            try:
                await server.serve_forever(is_up_event=_Up(up))
                ev("return", call=cid, result="returned")
            except ServerAlreadyRunning:
                ev("return", call=cid, result="ServerAlreadyRunning")
            except ServerClosedError:
                ev("return", call=cid, result="ServerClosedError")
            except asyncio.CancelledError:
                ev("return", call=cid, result="cancelled")
                raise
            except BaseException as exc:  # noqa: BLE001
                ev("return", call=cid, result=f"raised:{type(exc).__name__}: {exc}")

        held: list = []

        async def echo_once(keep: bool = False) -> str:
            if not server.is_serving():
                return "not-serving"
            addrs = server.get_addresses()
            if not addrs:
                return "no-address"
            addr = (addrs[0].host, addrs[0].port)
            lp = asyncio.get_running_loop()
            s = socket.socket(socket.AF_INET, socket.SOCK_DGRAM if h["udp"] else socket.SOCK_STREAM)
            s.setblocking(False)
            try:
                await lp.sock_connect(s, addr)
                await lp.sock_sendall(s, b"ping\n" if not h["udp"] else b"ping")
                r = await asyncio.wait_for(lp.sock_recv(s, 100), 5)
                if not r:
                    return "failed:closed-by-server"  # the server was shut down / closed while we were connected
                if h.get("server_closes") and not h["udp"]:
                    await asyncio.wait_for(lp.sock_recv(s, 100), 5)  # the server's end closes first: wait for its FIN
                if keep and r.strip() == b"ping":
                    # the client stays connected: a later shutdown has a connection to tear down (on_disconnection delay)
                    held.append(s)
                    s = None
                return "ok" if r.strip() == b"ping" else f"bad:{r!r}"
            except (OSError, asyncio.TimeoutError) as exc:
                return f"failed:{type(exc).__name__}"
            finally:
                if s is not None:
                    s.close()

        async def driver(tid: int):
            for o in [x for x in h["ops"] if x["task"] == tid]:
                if o["delay"]:
                    await asyncio.sleep(o["delay"])
                else:
                    await asyncio.sleep(0)
                op = o["op"]
                cid = ev("call", op=op, task=tid, serving=server.is_serving())
                try:
                    if op == "serve":
                        serve_tasks.append(asyncio.ensure_future(op_serve(cid)))
                        await asyncio.sleep(0)
                        continue
                    if op == "shutdown":
                        await server.shutdown()
                        ev("return", call=cid, result="returned", serving=server.is_serving())
                    elif op == "close":
                        await server.server_close()
                        ev("return", call=cid, result="returned", listening=server.is_listening(), socks=[_fileno(s) for s in captured_socks])
                    elif op == "activate":
                        try:
                            await server.server_activate()
                            ev("return", call=cid, result="returned", listening=server.is_listening())
                        except ServerClosedError:
                            ev("return", call=cid, result="ServerClosedError")
                    elif op == "echo":
                        ev("return", call=cid, result=await echo_once())
                    elif op == "hold":
                        ev("return", call=cid, result=await echo_once(keep=True))
                    elif op == "flood":
                        # several datagrams of one client back-to-back, nobody waits for the answers: with a busy handler they
                        # sit in that client's queue when the next lifecycle call arrives
                        try:
                            addrs = server.get_addresses()
                            fs = socket.socket(socket.AF_INET, socket.SOCK_DGRAM if h["udp"] else socket.SOCK_STREAM)
                            fs.setblocking(False)
                            await asyncio.get_running_loop().sock_connect(fs, (addrs[0].host, addrs[0].port))
                            for j in range(4):
                                await asyncio.get_running_loop().sock_sendall(fs, b"flood%d\n" % j if not h["udp"] else b"flood%d" % j)
                            held.append(fs)
                            ev("return", call=cid, result="sent")
                        except Exception as exc:  # noqa: BLE001
                            ev("return", call=cid, result=f"failed:{type(exc).__name__}")
                    else:
                        ev("return", call=cid, result=f"serving={server.is_serving()} listening={server.is_listening()}")
                except BaseException as exc:  # noqa: BLE001
                    if isinstance(exc, (asyncio.CancelledError, vloop.Quiescent)):
                        raise
                    ev("return", call=cid, result=f"raised:{type(exc).__name__}: {exc}")

        drivers = [asyncio.ensure_future(driver(t)) for t in range(h["ntasks"])]
        await asyncio.gather(*drivers)
        # epilogue: a final shutdown + close must always work, then serve_forever must refuse
        for attempt in range(50):
            cid = ev("call", op="shutdown", task=-1, serving=server.is_serving())
            await server.shutdown()
            ev("return", call=cid, result="returned", serving=server.is_serving())
            cid = ev("call", op="close", task=-1)
            try:
                await server.server_close()
                ev("return", call=cid, result="returned", listening=server.is_listening(), socks=[_fileno(s) for s in captured_socks])
                break
            except Exception as exc:  # noqa: BLE001
                ev("return", call=cid, result=f"raised:{type(exc).__name__}: {exc}")
                await asyncio.sleep(0.1)
        await asyncio.gather(*serve_tasks, return_exceptions=True)
        for hs in held:
            hs.close()
        cid = ev("call", op="serve", task=-1)
        try:
            await asyncio.wait_for(server.serve_forever(), 5)
            ev("return", call=cid, result="returned")
        except ServerClosedError:
            ev("return", call=cid, result="ServerClosedError")
        except BaseException as exc:  # noqa: BLE001
            if isinstance(exc, vloop.Quiescent):
                raise
            ev("return", call=cid, result=f"raised:{type(exc).__name__}")

    try:
        vloop.run(main)
    except vloop.Quiescent as exc:
        res["deadlock"] = str(exc)
    return res


def _fileno(sp) -> int:
    try:
        return sp.fileno()
    except Exception:  # noqa: BLE001
        return -1


def _quiet():
    import logging

    lg = logging.getLogger("verif.c18")
    lg.propagate = False
    lg.handlers[:] = [logging.NullHandler()]
    return lg


def check_history(events: list, ctx=None, threads: bool = False) -> str | None:
    if any(e["k"] == "still-serving-after-close" for e in events):
        return "standalone server still serving after server_close() returned: the close landed in the serve_forever() start-up window, its BusyResourceError (a RuntimeError) was swallowed, and the server was neither closed nor stopped"
    calls = {e["i"]: e for e in events if e["k"] == "call"}
    rets = {e["call"]: e for e in events if e["k"] == "return"}
    ups = {e["call"]: e for e in events if e["k"] == "up"}
    pending = [c for c in calls if c not in rets and not (calls[c]["op"] == "serve")]
    if pending:
        return f"calls never returned: {[calls[c]['op'] for c in pending]}"

    def interval(c):
        return (c, rets[c]["i"] if c in rets else 10**9)

    serves = [c for c in calls if calls[c]["op"] == "serve"]
    closes = [c for c in calls if calls[c]["op"] == "close"]
    shutdowns = [c for c in calls if calls[c]["op"] == "shutdown"]
    for c in serves:
        r = rets.get(c)
        a, b = interval(c)
        if r is None:
            return "a serve_forever call never returned although shutdown and server_close were called at the end"
        others = [o for o in serves if o != c]
        if r["result"] == "ServerAlreadyRunning":
            if ctx is not None:
                ctx.count("already_running_refusals")
            # (a) must overlap another serve_forever that was accepted (or still starting)
            # (a refused call never held the running state; one that later ended with ServerClosedError may have: it is
            # raised from the activation step, after the running flag was taken)
            if not any(interval(o)[0] < b and interval(o)[1] > a and rets[o]["result"] != "ServerAlreadyRunning" for o in others if o in rets):
                return f"serve_forever (event {c}) was refused with ServerAlreadyRunning although no other serve_forever call overlaps it"
        elif r["result"] == "ServerClosedError":
            if ctx is not None:
                ctx.count("closed_refusals")
            # (b) a server_close call began before it returned
            if not any(x < b for x in closes):
                return f"serve_forever (event {c}) raised ServerClosedError although server_close was never called before it returned"
        elif r["result"].startswith("raised"):
            return f"serve_forever raised {r['result']}"
        else:
            # (d) accepted: if it overlaps no other serve_forever and no close and no shutdown, it must have come up
            overl = any(interval(o)[0] < b and interval(o)[1] > a for o in others) or any(interval(x)[0] < b and interval(x)[1] > a for x in closes + shutdowns)
            if not overl and c not in ups:
                return f"serve_forever (event {c}) overlapping no other lifecycle call returned without ever serving"
        # (c) called after a server_close returned -> must be ServerClosedError
        interrupted = c not in ups and any(interval(x)[0] < b and interval(x)[1] > a for x in shutdowns + closes)  # stopped while starting
        if any(x in rets and rets[x]["i"] < c and rets[x]["result"] == "returned" for x in closes) and r["result"] not in ("ServerClosedError", "ServerAlreadyRunning") and not (r["result"] == "returned" and interrupted):
            return f"serve_forever (event {c}) called after server_close had returned ended '{r['result']}' instead of ServerClosedError"
    for s in shutdowns:
        r = rets[s]
        if r["result"] != "returned":
            return f"shutdown raised {r['result']}"
        # (e') asynchronous servers: a serve_forever that was up when shutdown was called has *returned* by the time shutdown
        # returns (the "is shut down" event is set by the last tear-down step of serve_forever, and the waiters run after it)
        if not threads:
            for c in serves:
                if c in ups and ups[c]["i"] < s and (c not in rets or rets[c]["i"] > r["i"]) and not (c in rets and rets[c]["i"] < s):
                    return f"shutdown (event {s}) returned at event {r['i']} while the serve_forever call (event {c}) it had to stop was still tearing down (returned at {rets[c]['i'] if c in rets else 'never'})"
            if ctx is not None and any(c in ups and ups[c]["i"] < s and c in rets and s < rets[c]["i"] < r["i"] for c in serves):
                ctx.count("shutdown_waited_for_teardown")
        # (e) no serve_forever that was up when it was called is still serving when it returns
        if r.get("serving"):
            # legitimate only if another serve_forever came up during the shutdown
            later_up = [u for u in ups.values() if s < u["i"] < r["i"]]
            if not later_up:
                return f"shutdown (event {s}) returned while the server is still serving"
    for x in closes:
        r = rets[x]
        if "BusyResourceError" in r["result"] and "during serve_forever() setup" in r["result"]:
            # explicit refusal: only legitimate while a serve_forever call is inside its start-up window
            xa, xb = interval(x)
            if not any(c < xb and (ups[c]["i"] if c in ups else interval(c)[1]) > xa for c in serves):
                return f"server_close (event {x}) was refused as 'during serve_forever() setup' although no serve_forever call was starting up"
            continue
        if r["result"] != "returned":
            return f"server_close raised {r['result']}"
        if threads and any(u["i"] > r["i"] and c < r["i"] for c, u in ups.items()):
            # the up signal is given on the event-loop thread, which also runs the close coroutine: an "up" recorded after the
            # close returned means the close ran before it, inside the start-up window, and closed nothing
            return "standalone server still serving after server_close() returned: a serve_forever() that was starting when server_close() was called came up after server_close() had returned"
        if r.get("listening"):
            return f"is_listening() is True right after server_close (event {x}) returned"
        if any(f != -1 for f in r.get("socks", [])):
            return f"listener sockets still open after server_close returned: {r.get('socks')}"
        if ctx is not None and r.get("socks"):
            ctx.count("listeners_closed_checked")
    if not threads:
        # (g) a request sent while a serve_forever is up, with no stop request anywhere near, is answered: "serve again" means serve
        for c, e in calls.items():
            if e["op"] not in ("echo", "hold") or c not in rets:
                continue
            res_ = rets[c]["result"]
            if res_ == "ok" or res_.startswith("bad"):
                continue
            r_i = rets[c]["i"]
            up_serves = [sv for sv in serves if sv in ups and ups[sv]["i"] < c and (sv not in rets or rets[sv]["i"] > r_i)]
            stops_near = [x for x in shutdowns + closes if x < r_i and (x not in rets or rets[x]["i"] > ups[up_serves[0]]["i"])] if up_serves else []
            if up_serves and not stops_near:
                nth = sorted(sv for sv in serves if sv in ups).index(up_serves[0]) + 1
                return f"a request sent while serve_forever #{nth} (event {up_serves[0]}) was up and no shutdown / server_close was in progress got '{res_}' instead of an answer"
            if ctx is not None and up_serves:
                ctx.count("echo_during_stop_not_judged")
    for c, e in calls.items():
        if e["op"] in ("echo", "hold") and rets[c]["result"].startswith("bad"):
            return f"echo through the serving server answered {rets[c]['result']}"
        if e["op"] == "echo" and rets[c]["result"] == "ok" and ctx is not None:
            ctx.count("echo_ok")
        if e["op"] == "activate" and rets[c]["result"].startswith("raised"):
            return f"server_activate raised {rets[c]['result']}"
    if ctx is not None:
        # serve again after a shutdown
        acc = [c for c in serves if c in ups]
        if len(acc) >= 2:
            ctx.count("serve_again_after_shutdown")
        # overlap statistics
        lifec = [c for c in calls if calls[c]["op"] in ("serve", "shutdown", "close", "activate")]
        if any(interval(a_)[0] < interval(b_)[1] and interval(b_)[0] < interval(a_)[1] for a_ in lifec for b_ in lifec if a_ < b_ and calls[a_]["task"] != calls[b_]["task"]):
            ctx.count("overlapping_histories")
        for s in shutdowns + closes:
            if any(c < s < (ups[c]["i"] if c in ups else rets[c]["i"]) for c in serves):
                ctx.count("shutdown_while_starting")
                break
        for s in shutdowns:
            # a stop request issued while an earlier stop request is still tearing the same serve_forever down
            if any(c in ups and c in rets and ups[c]["i"] < s < rets[c]["i"] and any(ups[c]["i"] < s0 < s for s0 in shutdowns + closes) for c in serves):
                ctx.count("shutdown_during_teardown")
                break
    return None


# ------------------------------------------------------------------------------------------ threads


def run_thread_history(h: dict, seed: int) -> dict:
    from easynetwork.servers.standalone_tcp import StandaloneTCPNetworkServer
    from easynetwork.servers.standalone_udp import StandaloneUDPNetworkServer
    from easynetwork.servers.threads_helper import NetworkServerThread

    events: list = []
    lock = threading.Lock()
    res: dict[str, Any] = {"events": events}

    def ev(kind: str, **kw) -> int:
        with lock:
            kw["k"] = kind
            kw["i"] = len(events)
            events.append(kw)
            return kw["i"]

    host = netutil.rand_loopback()
    port = _fixed_port(host, h["udp"]) if h.get("fixed_port") else 0
    if h["udp"]:
        server: Any = StandaloneUDPNetworkServer(host, port, DatagramProtocol(StringLineSerializer()), EchoDgram(0), logger=_quiet())
    else:
        server = StandaloneTCPNetworkServer(host, port, StreamProtocol(StringLineSerializer()), EchoStream(0, 0, bool(h.get("server_closes"))), logger=_quiet())
    serve_threads: list = []
    pp = h.get("preempt")
    serve_settled: dict[int, threading.Event] = {}
    gate = threading.Event()  # directed mode: the other tasks start when the pause point is reached
    others_done = threading.Event()
    others_left = [h["ntasks"] - 1]

    def op_serve(cid: int):
        settled = serve_settled.setdefault(cid, threading.Event())

        class Up:
            def set(self_inner):
                ev("up", call=cid)
                settled.set()

        try:
            server.serve_forever(is_up_event=Up())
            ev("return", call=cid, result="returned")
        except ServerAlreadyRunning:
            ev("return", call=cid, result="ServerAlreadyRunning")
        except ServerClosedError:
            ev("return", call=cid, result="ServerClosedError")
        except BaseException as exc:  # noqa: BLE001
            ev("return", call=cid, result=f"raised:{type(exc).__name__}: {exc}")
        finally:
            settled.set()

    def echo_once() -> str:
        try:
            addrs = server.get_addresses()
        except Exception as exc:  # noqa: BLE001
            return f"failed:{type(exc).__name__}"
        if not addrs:
            return "not-serving"
        s = socket.socket(socket.AF_INET, socket.SOCK_DGRAM if h["udp"] else socket.SOCK_STREAM)
        s.settimeout(5)
        try:
            s.connect((addrs[0].host, addrs[0].port))
            s.sendall(b"ping\n" if not h["udp"] else b"ping")
            r = s.recv(100)
            if not r:
                return "failed:closed-by-server"
            if h.get("server_closes") and not h["udp"]:
                s.recv(100)  # the server's end closes first: wait for its FIN
            return "ok" if r.strip() == b"ping" else f"bad:{r!r}"
        except OSError as exc:
            return f"failed:{type(exc).__name__}"
        finally:
            s.close()

    def driver(tid: int):
        try:
            _driver(tid)
        finally:
            if pp:
                if tid == 0:
                    gate.set()  # the pause point was not on the path: the other calls simply come afterwards
                else:
                    with lock:
                        others_left[0] -= 1
                        if others_left[0] <= 0:
                            others_done.set()

    def _driver(tid: int):
        if pp and tid != 0:
            gate.wait(60)
        mine = [x for x in h["ops"] if x["task"] == tid]
        for idx, o in enumerate(mine):
            if o["delay"]:
                time.sleep(o["delay"] / 10)
            op = o["op"]
            if pp and tid == 0 and idx == pp["arm_at"]:
                inj.armed = True
            cid = ev("call", op=op, task=tid)
            try:
                if op == "serve":
                    if h.get("use_server_thread") and not serve_threads:
                        # NetworkServerThread.start() waits for the server to be up (or to have failed)
                        t: Any = threading.Thread(target=op_serve, args=(cid,), daemon=True)
                    else:
                        t = threading.Thread(target=op_serve, args=(cid,), daemon=True)
                    serve_threads.append(t)
                    serve_settled[cid] = threading.Event()
                    t.start()
                    if pp:
                        # directed mode: a serve call counts as performed once it is up or has ended (bounded wait: it may
                        # legitimately be blocked behind the paused thread)
                        serve_settled[cid].wait(5.0 if (tid == 0 and idx < pp["arm_at"]) else 0.4)
                    elif o.get("wait_up"):
                        serve_settled[cid].wait(20.0)  # sequential template: the next call comes once this one is up (or has ended)
                elif op == "shutdown":
                    server.shutdown()
                    ev("return", call=cid, result="returned", serving=server.is_serving())
                elif op == "close":
                    server.server_close()
                    ev("return", call=cid, result="returned")
                elif op == "activate":
                    ev("return", call=cid, result="skipped")
                elif op == "echo":
                    ev("return", call=cid, result=echo_once())
                else:
                    ev("return", call=cid, result=f"serving={server.is_serving()}")
            except BaseException as exc:  # noqa: BLE001
                ev("return", call=cid, result=f"raised:{type(exc).__name__}: {exc}")

    def at_pause() -> None:
        ev("paused", point=[pp["code"], pp["line"]], thread=threading.current_thread().name)
        gate.set()
        ok = others_done.wait(0.4)
        ev("resumed", others_done=ok)

    inj: Any
    if pp:
        inj = preempt.PausePoint(_lifecycle_funcs(), pp["code"], pp["line"], at_pause)
    else:
        inj = yieldinject.YieldInjector(seed, p_yield=0.03, p_sleep=0.005)
    with inj:
        ths = [threading.Thread(target=driver, args=(t,), daemon=True) for t in range(h["ntasks"])]
        for t in ths:
            t.start()
        deadline = time.monotonic() + (40 if pp else 150)
        for t in ths:
            t.join(max(0.1, deadline - time.monotonic()))
        stuck = [t for t in ths if t.is_alive()]
        if not stuck:
            # epilogue
            def epilogue():
                # a close may legitimately be refused while a (late) serve_forever is in its start-up window: retry
                for attempt in range(50):
                    cid = ev("call", op="shutdown", task=-1)
                    server.shutdown()
                    ev("return", call=cid, result="returned", serving=server.is_serving())
                    cid = ev("call", op="close", task=-1)
                    try:
                        server.server_close()
                        ev("return", call=cid, result="returned")
                        break
                    except BaseException as exc:  # noqa: BLE001
                        ev("return", call=cid, result=f"raised:{type(exc).__name__}: {exc}")
                        time.sleep(0.05)
                # server_close() returned: nothing may be serving any more
                time.sleep(0.1)
                try:
                    still = server.is_serving()
                except Exception:  # noqa: BLE001
                    still = False
                if still:
                    ev("still-serving-after-close")
                    server.shutdown()
                for t in list(serve_threads):
                    t.join(20)
                # a closed server must refuse to serve: run the last serve_forever in its own thread so that a server
                # that does come up again is a recorded event, not a hung harness
                cid = ev("call", op="serve", task=-1)
                came_up = threading.Event()
                finished = threading.Event()

                class Up2:
                    def set(self_inner):
                        ev("up", call=cid)
                        came_up.set()

                def last():
                    try:
                        server.serve_forever(is_up_event=Up2())
                        ev("return", call=cid, result="returned")
                    except ServerClosedError:
                        ev("return", call=cid, result="ServerClosedError")
                    except BaseException as exc:  # noqa: BLE001
                        ev("return", call=cid, result=f"raised:{type(exc).__name__}")
                    finished.set()

                lt = threading.Thread(target=last, daemon=True)
                lt.start()
                for _ in range(400):
                    if finished.is_set() or came_up.is_set():
                        break
                    time.sleep(0.05)
                if came_up.is_set() and not finished.is_set():
                    server.shutdown()
                    lt.join(20)

            et = threading.Thread(target=epilogue, daemon=True)
            et.start()
            et.join(40 if pp else 150)
            if et.is_alive():
                stuck = [et]
            for t in serve_threads:
                t.join(10)
                if t.is_alive():
                    stuck.append(t)
        if stuck:
            res["stuck"] = _sample_stacks(stuck + serve_threads)
    if pp:
        res["paused"] = inj.fired
    else:
        res["switches"] = inj.switches
        res["ihash"] = inj.hash
    return res


def _lifecycle_funcs() -> list:
    from easynetwork.servers._base import BaseStandaloneNetworkServerImpl as B

    from easynetwork.servers._base import BaseAsyncNetworkServerImpl as A

    return [B.shutdown, B.server_close, B._run_sync_or_else, B.serve_forever, B.is_serving, A.serve_forever, A.server_activate, A.server_close, A.shutdown]


def directed_histories() -> list[dict]:
    """every (initial state, call X, pause point on X's path, concurrent call Y)"""
    from easynetwork.servers._base import BaseAsyncNetworkServerImpl as A
    from easynetwork.servers._base import BaseStandaloneNetworkServerImpl as B

    # the asynchronous server's functions run on the event-loop thread: pausing it there queues the concurrent call's
    # coroutine, which then runs at the paused coroutine's next suspension point
    per_x = {
        "shutdown": [B.shutdown, B.serve_forever, A.shutdown, A.serve_forever],  # a shutdown drives the serving thread through the tear-down
        "close": [B.server_close, B._run_sync_or_else, A.server_close],
        "serve": [B.serve_forever, A.serve_forever, A.server_activate],
    }
    out = []
    for state in ("idle", "serving"):
        for x, funcs in per_x.items():
            for code, line in preempt.points(funcs):
                if state == "idle" and x == "shutdown" and code not in ("shutdown", "do_shutdown_with_timeout"):
                    continue
                for y in ("serve", "shutdown", "close", "probe"):
                    ops = []
                    if state == "serving":
                        ops.append({"task": 0, "op": "serve", "delay": 0})
                    ops.append({"task": 0, "op": x, "delay": 0})
                    ops.append({"task": 1, "op": y, "delay": 0})
                    out.append({"udp": False, "ops": ops, "listen_delay": 0, "init_delay": 0, "disc_delay": 0, "ntasks": 2, "use_server_thread": False,
                                "preempt": {"code": code, "line": line, "arm_at": len(ops) - 2}, "state": state, "x": x, "y": y})
    return out


def _sample_stacks(threads: list) -> dict:
    def snap():
        frames = sys._current_frames()
        out = {}
        for t in threads:
            if t.is_alive() and t.ident in frames:
                st = traceback.extract_stack(frames[t.ident])
                out[t.ident] = [("easynetwork/" * ("easynetwork" in f.filename) + f.filename.split("/")[-1], f.lineno, f.name) for f in st[-8:]]
        return out

    a = snap()
    time.sleep(3)
    b = snap()
    same = a == b and bool(a)
    # every surviving thread is parked (lock / event / future wait, or an event loop idling in its selector) under an easynetwork frame
    in_lib = all(any("easynetwork" in fr[0] for fr in st) and st[-1][2] in ("acquire", "wait", "result", "select", "__enter__") for st in a.values()) if a else False
    return {"deadlock": bool(same and in_lib), "stacks": {str(k): v for k, v in a.items()}}


def plan(tier: str, seed: int) -> list[dict]:
    n_async = 120 if tier == "quick" else 4000
    n_thr = 3 if tier == "quick" else 40
    return [{"seed": seed * 1000 + k, "n_async": n_async, "n_threads": n_thr, "tier": tier} for k in range(16)]


def run_shard(params: dict, ctx) -> None:
    rng = random.Random(params["seed"])
    for i in range(params["n_async"]):
        if ctx.should_stop(60):
            return
        h = gen_history(rng)
        ctx.count("kind:async-udp" if h["udp"] else "kind:async-tcp")
        res = run_async_history(h)
        why = f"deadlock: {res['deadlock']} (last events {[(e['k'], e.get('op'), e.get('result')) for e in res['events'][-5:]]})" if res.get("deadlock") else check_history(res["events"], ctx)
        ctx.case(h["ntasks"] >= 2, repr(h))
        if why:
            cat = "deadlock" if "deadlock" in why or "never returned" in why else "refusal-rule" if ("ServerAlreadyRunning" in why or "ServerClosedError" in why) else "shutdown-rule" if "shutdown" in why else "close-rule" if ("server_close" in why or "listener" in why or "is_listening" in why) else "other"
            ctx.violation(f"{cat}:async-{'udp' if h['udp'] else 'tcp'}", why, {"history": h, "events": [{k: v for k, v in e.items()} for e in res["events"]][-16:], "threads": False})
        if i == 0:
            ctx.sample(h)
    T = template_histories()
    for j in range(params["seed"] % 16, len(T), 16):
        h = T[j]
        ctx.count("kind:async-template")
        res = run_async_history(h)
        why = f"deadlock: {res['deadlock']} (last events {[(e['k'], e.get('op'), e.get('result')) for e in res['events'][-5:]]})" if res.get("deadlock") else check_history(res["events"], ctx)
        ctx.case(True, "template", h["template"], h["udp"])
        if why:
            cat = "deadlock" if "deadlock" in why or "never returned" in why else "refusal-rule" if ("ServerAlreadyRunning" in why or "ServerClosedError" in why) else "shutdown-rule" if "shutdown" in why else "close-rule" if ("server_close" in why or "listener" in why or "is_listening" in why) else "other"
            ctx.violation(f"{cat}:async-{'udp' if h['udp'] else 'tcp'}", f"[{h['template']}] {why}", {"history": h, "events": [{k: v for k, v in e.items()} for e in res["events"]][-16:], "threads": False})
    for i in range(params["n_threads"]):
        h = gen_history(rng)
        h["use_server_thread"] = rng.random() < 0.3
        ctx.count("kind:standalone-udp" if h["udp"] else "kind:standalone-tcp")
        if h["use_server_thread"]:
            ctx.count("kind:server-thread")
        res = run_thread_history(h, params["seed"] * 100 + i)
        ctx.case(h["ntasks"] >= 2, "threads", repr(h))
        if res.get("stuck"):
            if res["stuck"]["deadlock"]:
                ctx.violation(f"deadlock:standalone-{'udp' if h['udp'] else 'tcp'}", f"threads parked on identical easynetwork lines in two samples 3 s apart: {res['stuck']['stacks']}", {"history": h, "threads": True})
            else:
                ctx.inconclusive_because("a threaded lifecycle call exceeded its 150 s watchdog without a stable deadlock signature: " + repr({"history": h["ops"], "stacks": res["stuck"]["stacks"], "events": [(e["k"], e.get("op"), e.get("result"), e.get("task")) for e in res["events"]][-12:]})[:1500])
            continue
        why = check_history(res["events"], ctx, threads=True)
        if why:
            key = "close-ignored-during-startup:standalone" if "still serving after server_close" in why else f"history:standalone-{'udp' if h['udp'] else 'tcp'}"
            ctx.violation(key, why, {"history": h, "events": res["events"][-16:], "threads": True})
    TT = thread_template_histories()
    for j in range(params["seed"] % 16, len(TT), 16):
        h = TT[j]
        ctx.count("kind:standalone-template")
        res = run_thread_history(h, params["seed"])
        ctx.case(True, "threads-template", h["template"], h["udp"])
        if res.get("stuck"):
            ctx.violation(f"never-returned:standalone-template", f"[{h['template']}] a lifecycle call never returned: stacks {res['stuck']['stacks']}", {"history": h, "threads": True})
            continue
        why = check_history(res["events"], ctx, threads=True)
        echoes = [e["result"] for e in res["events"] if e["k"] == "return" and res["events"][e["call"]].get("op") == "echo"]
        if not why and any(r in ("not-serving", "failed:ConnectionRefusedError", "failed:closed-by-server") or r.startswith("bad") for r in echoes):
            why = f"requests sent while the (re)started server was up and no stop request was in progress got {echoes}"
        if why:
            ctx.violation(f"history:standalone-template-{'udp' if h['udp'] else 'tcp'}", f"[{h['template']}] {why}", {"history": h, "events": res["events"][-16:], "threads": True})
        else:
            ctx.count("fixed_port_restarts_checked")
    # directed preemption: one pause per run, at every line of the standalone lifecycle functions
    D = directed_histories()
    mine = list(range(params["seed"] % 16, len(D), 16))
    if params.get("tier") == "quick":
        # a quarter of the schedules per seed, plus always the ones inside the standalone wrapper's shutdown() (where d6b42f2 was)
        always = [j for j in mine if D[j]["x"] == "shutdown" and D[j]["preempt"]["code"] == "shutdown"]
        mine = sorted(set(mine[(params["seed"] // 1000) % 4 :: 4]) | set(always))
    for j in mine:
        h = D[j]
        ctx.count("kind:directed-preemption")
        res = run_thread_history(h, 0)
        label = f"{h['state']}:{h['x']}@{h['preempt']['code']}:{h['preempt']['line']} vs {h['y']}"
        ctx.case(bool(res.get("paused")), "directed", label)
        if res.get("paused"):
            ctx.count("pause_points_reached")
            if any(e["k"] == "resumed" and not e["others_done"] for e in res["events"]):
                ctx.count("concurrent_call_blocked_behind_paused_thread")
        if res.get("stuck"):
            evs = [(e["k"], e.get("op"), e.get("result"), e.get("task")) for e in res["events"]]
            ctx.violation(f"never-returned:standalone:{h['x']}-vs-{h['y']}", f"[directed {label}] a lifecycle call never returned (40 s): stacks {res['stuck']['stacks']}; events {evs}", {"history": h, "threads": True, "directed": True})
            continue
        why = check_history(res["events"], ctx, threads=True)
        if why:
            key = "close-ignored-during-startup:standalone" if "still serving after server_close" in why else f"history:standalone-directed:{h['x']}-vs-{h['y']}"
            ctx.violation(key, f"[directed {label}] {why}", {"history": h, "events": res["events"][-16:], "threads": True, "directed": True})
    # NetworkServerThread start/join cycle
    _server_thread_cycle(ctx, rng)
    # NetworkServerThread.start() against a stop request at every line of the start-up path
    P = [(pt, y) for pt in server_thread_points() for y in ("shutdown", "close")]
    mine2 = list(range(params["seed"] % 16, len(P), 16))
    if params.get("tier") == "quick":
        mine2 = mine2[(params["seed"] // 1000) % 3 :: 3]
    for j in mine2:
        pt, y = P[j]
        ctx.count("kind:server-thread-directed")
        why = server_thread_directed(ctx, pt, y)
        ctx.case(True, "server-thread-directed", pt, y)
        if why:
            ctx.violation(f"never-returned:server-thread-start-vs-{y}", f"[NetworkServerThread] {why}", {"threads": True, "server_thread": True, "point": list(pt), "y": y})


def _server_thread_cycle(ctx, rng) -> None:
    from easynetwork.servers.standalone_tcp import StandaloneTCPNetworkServer
    from easynetwork.servers.threads_helper import NetworkServerThread

    server = StandaloneTCPNetworkServer(netutil.rand_loopback(), 0, StreamProtocol(StringLineSerializer()), EchoStream(0, 0), logger=_quiet())
    ctx.count("kind:server-thread")
    t = NetworkServerThread(server, daemon=True)
    done = threading.Event()

    def body():
        try:
            t.start()
            ok = server.is_serving()
            t.join(timeout=20)
            server.server_close()
            done.ok = ok and not t.is_alive()  # type: ignore[attr-defined]
        except BaseException as exc:  # noqa: BLE001
            done.ok = f"raised {type(exc).__name__}: {exc}"  # type: ignore[attr-defined]
        done.set()

    th = threading.Thread(target=body, daemon=True)
    th.start()
    if not done.wait(40):
        ctx.inconclusive_because("NetworkServerThread start/join cycle exceeded its 40 s watchdog")
        return
    ctx.case(False, "server-thread-cycle")
    if done.ok is not True:  # type: ignore[attr-defined]
        ctx.violation("server-thread-cycle", f"NetworkServerThread start()/join(): {done.ok}", {"threads": True, "history": None})  # type: ignore[attr-defined]


def server_thread_points() -> list[tuple[str, int]]:
    from easynetwork.servers._base import BaseAsyncNetworkServerImpl as A
    from easynetwork.servers._base import BaseStandaloneNetworkServerImpl as B
    from easynetwork.servers.threads_helper import NetworkServerThread

    return preempt.points([NetworkServerThread.run, B.serve_forever, A.serve_forever, A.server_activate])


def server_thread_directed(ctx, point: tuple[str, int], y: str) -> str | None:
    """NetworkServerThread.start() (which waits for the server to be up or to have given up) while another thread calls shutdown() /
    server_close() with the server thread paused before `point` of the start-up path: start() must return, join() must end the thread"""
    from easynetwork.servers._base import BaseAsyncNetworkServerImpl as A
    from easynetwork.servers._base import BaseStandaloneNetworkServerImpl as B
    from easynetwork.servers.standalone_tcp import StandaloneTCPNetworkServer
    from easynetwork.servers.threads_helper import NetworkServerThread

    server = StandaloneTCPNetworkServer(netutil.rand_loopback(), 0, StreamProtocol(StringLineSerializer()), EchoStream(0, 0), logger=_quiet())
    t = NetworkServerThread(server, daemon=True)
    other_done = threading.Event()
    notes: dict = {}

    def other():
        try:
            if y == "shutdown":
                server.shutdown()
            else:
                server.server_close()
            notes["y"] = "returned"
        except BaseException as exc:  # noqa: BLE001
            notes["y"] = f"raised {type(exc).__name__}"
        other_done.set()

    others: list = []

    def at_pause():
        o = threading.Thread(target=other, daemon=True)
        o.start()
        others.append(o)  # (only started threads are listed: the main thread joins them)
        other_done.wait(0.4)

    started = threading.Event()

    def starter():
        try:
            t.start()
            notes["start"] = "returned"
        except BaseException as exc:  # noqa: BLE001
            notes["start"] = f"raised {type(exc).__name__}: {exc}"
        started.set()

    pp = preempt.PausePoint([NetworkServerThread.run, B.serve_forever, A.serve_forever, A.server_activate], point[0], point[1], at_pause)
    why = None
    with pp:
        pp.armed = True
        st = threading.Thread(target=starter, daemon=True)
        st.start()
        if not started.wait(20):
            why = f"NetworkServerThread.start() still blocked 20 s after {y}() was called during the start-up (paused before {point}); {y}: {notes.get('y', 'pending')}"
        for o in others:
            o.join(20)
            if o.is_alive() and why is None:
                why = f"{y}() called during the start-up of the server thread never returned"
    if pp.fired:
        ctx.count("server_thread_pause_points_reached")
    # tear down whatever is left
    def cleanup():
        try:
            server.shutdown(timeout=10)
            server.server_close()
        except BaseException:  # noqa: BLE001
            pass

    ct = threading.Thread(target=cleanup, daemon=True)
    ct.start()
    ct.join(30)
    if why is None and notes.get("start") == "returned":  # (start() returned: the thread object is fully started and may be joined)
        t.join(timeout=20)
        if t.is_alive():
            why = f"the server thread is still alive after shutdown + join ({y} during start-up, paused before {point})"
    return why


def replay(witness: dict, ctx) -> None:
    if witness.get("server_thread"):
        why = server_thread_directed(ctx, tuple(witness["point"]), witness["y"])
        if why:
            ctx.violation("replayed", why, witness)
        return
    if witness.get("directed"):
        res = run_thread_history(witness["history"], 0)
        why = "a lifecycle call never returned" if res.get("stuck") else check_history(res["events"], None, threads=True)
        if why:
            ctx.violation("replayed", why, witness)
        return
    if witness.get("threads") or witness.get("history") is None:
        return
    res = run_async_history(witness["history"])
    why = f"deadlock: {res['deadlock']}" if res.get("deadlock") else check_history(res["events"], None)
    if why:
        ctx.violation("replayed", why, witness)
