"""C15 — stream server: each request reaches the handler exactly once, in order.

Monitor: AsyncStreamServer.serve over an in-memory listener (virtual time), with raw low-level generators and with
build_lowlevel_stream_server_handler around generated request handlers (requests per handle() generator, yielded timeouts,
on_connection as coroutine or generator, closing the client at a chosen request, echo). The request stream mixes valid and
undecodable frames, is chunked with virtual delays and may end at any offset. Handler-side log vs by-construction sequence:
request i once and in order across generator restarts, a parse error at its position, TimeoutError only when no complete
request arrived within the yielded timeout, generators closed exactly once, connection closed, nothing delivered afterwards.
"""

from __future__ import annotations

import asyncio
import contextlib
import random
from typing import Any

from easynetwork.exceptions import StreamProtocolParseError
from easynetwork.lowlevel.api_async.backend._asyncio.backend import AsyncIOBackend
from easynetwork.lowlevel.api_async.servers.stream import AsyncStreamServer
from easynetwork.protocol import BufferedStreamProtocol, StreamProtocol
from easynetwork.serializers import StringLineSerializer
from easynetwork.servers.handlers import AsyncStreamClient, AsyncStreamRequestHandler
from easynetwork.servers.misc import build_lowlevel_stream_server_handler

from vlib import gen, memtransport, vloop

PROPERTY = "C15"
LEVEL = "exploration"
RULE = (
    "case = one client connection: (API level in {low-level generator, high-level request handler}, receive path, request sequence "
    "of valid / undecodable frames, chunking with virtual delays, disconnect offset, handler shape: requests per generator in "
    "{1,2,3,inf}, yielded timeout in {None,0.5,2}, on_connection kind consuming j requests, close-client-at-request i, echo, "
    "reaction to TimeoutError). non-trivial = >= 3 requests and (a generator restart, a parse error followed by a valid request, "
    "or a timeout) occurred; distinct = distinct parameter tuples"
)
ASSUMPTIONS = [
    "in-memory listener and transports on the virtual-time loop; arrival time of a request = virtual time at which the chunk holding its last byte is fed",
    "timeout band: a request whose last byte arrives within 0.05 s of the deadline may or may not raise TimeoutError",
]
REQUIRED = [
    "level:low",
    "level:high",
    "path:copy",
    "path:buffered",
    "generator_restarts",
    "parse_error_then_valid",
    "timeouts_thrown",
    "client_closed_by_handler",
    "generator_ended_right_after_closing_the_client",
    "disconnect_mid_frame",
    "on_connection_generator",
    "requests_checked",
    "timeout_from_scope_around_yield",
    "scope_timeout_inside_on_connection_generator",
]
WATCHDOG = {"quick": 900, "thorough": 7200}
EPS = 0.05


class _Client(AsyncStreamClient):
    __slots__ = ("_low", "_closing")

    def __init__(self, low) -> None:
        self._low = low
        self._closing = False

    async def send_packet(self, packet) -> None:
        await self._low.send_packet(packet)

    async def aclose(self) -> None:
        self._closing = True
        await self._low.aclose()

    def is_closing(self) -> bool:
        return self._closing or self._low.is_closing()

    def backend(self):
        return self._low.backend()

    @property
    def extra_attributes(self):
        return self._low.extra_attributes


def gen_params(rng: random.Random) -> dict:
    n = rng.randint(1, 8)
    frames = []
    for i in range(n):
        frames.append("U" if rng.random() < 0.2 else "V")
    return {
        "level": rng.choice(["low", "high"]),
        "buffered": rng.random() < 0.5,
        "frames": frames,
        "per_gen": rng.choice([1, 2, 3, None]),
        "timeout": rng.choice([None, None, 0, 0.5, 2.0]),
        "on_timeout": rng.choice(["continue", "stop"]),
        # how the wait is bounded: a yielded timeout, or a timeout() / move_on_after() scope of the back-end around a bare yield
        # (the server then sees a cancellation of its pending receive, thrown into the generator, instead of a deadline)
        "tmode": rng.choice(["yield", "yield", "timeout-scope", "move-on-scope"]),
        "on_connection": rng.choice(["coro", "coro", "gen0", "gen1", "gen2"]),
        "close_at": rng.choice([None, None, None, 1, 2, 4]),
        "after_close": rng.choice(["continue", "return"]),  # keep waiting for requests on the closed client, or end the generator
        "echo": rng.random() < 0.5,
        "delays": [rng.choice([0, 0, -1, 0.25, 1.0, 3.0]) for _ in range(12)],
        "cut_seed": rng.getrandbits(30),
        "disconnect": rng.choice(["end", "end", "mid", "boundary"]),
        "max_recv": rng.choice([1, 5, 64, 16384]),
    }


def run_conn(p: dict) -> dict:
    rng = random.Random(p["cut_seed"])
    payloads = []
    expected = []
    for i, f in enumerate(p["frames"]):
        if f == "V":
            txt = f"req{i:03d}" + "z" * rng.randint(0, 6)
            payloads.append(txt.encode() + b"\n")
            expected.append(("req", txt))
        else:
            payloads.append(b"bad\xe9" + bytes([48 + i]) + b"\n")
            expected.append(("err", "StreamProtocolParseError"))
    stream = b"".join(payloads)
    ends = []
    pos = 0
    for pl in payloads:
        pos += len(pl)
        ends.append(pos)
    if p["disconnect"] == "end":
        cut = len(stream)
    elif p["disconnect"] == "boundary":
        cut = rng.choice([0] + ends)
    else:
        cut = rng.randrange(0, len(stream) + 1)
    cuts = gen.random_cuts(rng, max(cut, 1))
    chunks = gen.chunks_from_cuts(stream[:cut], [c for c in cuts if c < cut]) if cut else []
    script = []
    for i, ch in enumerate(chunks):
        script.append((p["delays"][i % len(p["delays"])], ch))
    script.append((p["delays"][len(chunks) % len(p["delays"])], memtransport.EOF))
    log: list = []
    res: dict[str, Any] = {"log": log, "expected": expected, "ends": ends, "cut": cut, "stream_len": len(stream)}

    async def main(loop):
        backend = AsyncIOBackend()
        listener = memtransport.MemListener(backend)
        ser = StringLineSerializer()
        proto = BufferedStreamProtocol(ser) if p["buffered"] else StreamProtocol(ser)
        server = AsyncStreamServer(listener, proto, max_recv_size=p["max_recv"])
        m = memtransport.MemStreamTransport(backend)
        res["m"] = m
        state = {"count": 0, "gens": 0, "open_gens": 0, "closed_by_handler": False}
        done = asyncio.Event()

        def now():
            return round(loop.time(), 4)

        async def consume(client, gid: int, limit: int | None, kind: str):
            """shared body of every handler generator"""
            state["gens"] += 1
            state["open_gens"] += 1
            log.append(("gen-start", gid, kind, now()))
            got = 0
            try:
                while limit is None or got < limit:
                    log.append(("yield", p["timeout"], now()))
                    tmode = p.get("tmode", "yield") if p["timeout"] else "yield"
                    try:
                        if tmode == "yield":
                            req = yield p["timeout"]
                        elif tmode == "timeout-scope":
                            with backend.timeout(p["timeout"]):
                                req = yield None
                        else:
                            with backend.move_on_after(p["timeout"]) as ms:
                                req = yield None
                            if ms.cancelled_caught():
                                raise TimeoutError
                    except TimeoutError:
                        log.append(("timeout", now()))
                        if p["on_timeout"] == "stop":
                            log.append(("gen-return", gid, kind))
                            return
                        continue
                    except StreamProtocolParseError as exc:
                        log.append(("err", "StreamProtocolParseError", now()))
                        state["count"] += 1
                        got += 1
                        continue
                    log.append(("req", req, now()))
                    state["count"] += 1
                    got += 1
                    if p["echo"]:
                        try:
                            await client.send_packet(req)
                        except Exception as exc:  # noqa: BLE001
                            log.append(("send-failed", type(exc).__name__))
                    if p["close_at"] is not None and state["count"] >= p["close_at"] and not state["closed_by_handler"]:
                        state["closed_by_handler"] = True
                        log.append(("handler-closes", now()))
                        await client.aclose()
                        if p.get("after_close") == "return":
                            log.append(("gen-return", gid, kind))
                            return
                log.append(("gen-return", gid, kind))
            finally:
                state["open_gens"] -= 1
                log.append(("gen-finally", gid, now()))

        if p["level"] == "low":

            # a raw low-level generator: just the shared body
            def cb_factory(client):
                return consume(client, 0, None, "low")

            handler = cb_factory
        else:

            class H(AsyncStreamRequestHandler):
                def __init__(self):
                    self.gid = 0

                def on_connection(self, client):
                    log.append(("on_connection", now()))
                    if p["on_connection"] == "coro":

                        async def c():
                            await asyncio.sleep(0)

                        return c()
                    j = int(p["on_connection"][-1])
                    self.gid += 1
                    return consume(client, self.gid, j, "on_connection") if j else _empty_gen()

                def handle(self, client):
                    self.gid += 1
                    return consume(client, self.gid, p["per_gen"], "handle")

                async def on_disconnection(self, client):
                    log.append(("on_disconnection", now()))

            @contextlib.asynccontextmanager
            async def initializer(low):
                yield _Client(low)

            handler = build_lowlevel_stream_server_handler(initializer, H())

        serve = asyncio.ensure_future(server.serve(handler))
        res["t0"] = now()
        listener.connect(m)
        feed = asyncio.ensure_future(memtransport.feeder(m.incoming, script))
        waited = 0.0
        while not m.closed and waited < 10_000:
            await asyncio.sleep(0.25)
            waited += 0.25
        if not m.closed:
            res["stuck"] = True
        for _ in range(8):
            await asyncio.sleep(0)
        res["closed"] = m.closed
        res["feed_log"] = list(m.incoming.feed_log)
        res["open_gens"] = state["open_gens"]
        res["wire"] = m.wire_bytes()
        feed.cancel()
        serve.cancel()
        await asyncio.gather(feed, serve, return_exceptions=True)
        await server.aclose()

    try:
        vloop.run(main)
    except vloop.Quiescent as exc:
        res["deadlock"] = str(exc)
    # arrival time of each frame's last byte, from the times at which the feeder actually fed the chunks
    pos = 0
    frame_arrival = {}
    for tt, n in res.get("feed_log", []):
        if n is None:
            res["eof_time"] = tt
            break
        pos += n
        for i, e in enumerate(ends):
            if e <= pos and i not in frame_arrival:
                frame_arrival[i] = tt
    res["frame_arrival"] = frame_arrival
    res.pop("m", None)
    return res


async def _empty_gen():
    return
    yield  # pragma: no cover


def _as_gen(g):
    return g


def decide(p: dict, res: dict, ctx=None) -> str | None:
    if res.get("deadlock"):
        return f"deadlock: {res['deadlock']}"
    if res.get("stuck"):
        return "the connection handler never finished"
    log = res["log"]
    expected = res["expected"]
    ends = res["ends"]
    cut = res["cut"]
    n_complete = sum(1 for e in ends if e <= cut)
    delivered = [e for e in log if e[0] in ("req", "err")]
    close_i = next((i for i, e in enumerate(log) if e[0] == "handler-closes"), None)
    # (1) sequence
    for i, e in enumerate(delivered):
        if i >= n_complete:
            return f"item #{i} {e[:2]} delivered but only {n_complete} requests were complete before the disconnect"
        exp = expected[i]
        if e[0] != exp[0] or (e[0] == "req" and e[1] != exp[1]):
            return f"item #{i} is {e[:2]}, expected {exp}"
    # (2) nothing after the handler closed the client
    if close_i is not None:
        later = [e for e in log[close_i + 1 :] if e[0] in ("req", "err")]
        if later:
            return f"{len(later)} requests delivered after the handler closed the client"
        # nor is a new handler generator started on the closed client
        started = [e for e in log[close_i + 1 :] if e[0] == "gen-start"]
        if started:
            return f"a new handler generator ({started[0][2]} #{started[0][1]}) was started after the handler had closed the client"
        if ctx is not None and p.get("after_close") == "return" and p["level"] == "high":
            ctx.count("generator_ended_right_after_closing_the_client")
    # (3) everything complete is delivered unless the handler stopped / closed / timed out and stopped
    stopped_early = close_i is not None or (p["on_timeout"] == "stop" and any(e[0] == "timeout" for e in log) and p["level"] == "low") or False
    if p["level"] == "high" and p["on_timeout"] == "stop":
        stopped_early = stopped_early or False  # a new generator is started after a stop: requests keep flowing
    if not stopped_early and len(delivered) < n_complete:
        return f"only {len(delivered)} of {n_complete} complete requests reached the handler ({[e[:2] for e in delivered][-3:]})"
    # (4) timeouts only when no complete request arrived in time
    fa = res["frame_arrival"]
    k = 0
    last_yield = None
    for e in log:
        if e[0] == "yield":
            last_yield = e
        elif e[0] in ("req", "err"):
            if last_yield is not None and last_yield[1] is not None and k in fa:
                if fa[k] > last_yield[2] + last_yield[1] + EPS and e[-1] > last_yield[2] + last_yield[1] + EPS:
                    return f"request #{k} arrived at {fa[k]} but was delivered to a handler that yielded timeout {last_yield[1]} at {last_yield[2]} (TimeoutError expected)"
            k += 1
        elif e[0] == "timeout":
            if last_yield is None or last_yield[1] is None:
                return "TimeoutError thrown although the handler yielded no timeout"
            deadline = last_yield[2] + last_yield[1]
            if k in fa and fa[k] < deadline - EPS:
                return f"TimeoutError at {e[1]} although request #{k} was complete at {fa[k]} < deadline {deadline}"
            if k not in fa and res.get("eof_time") is not None and res["eof_time"] < deadline - EPS and k >= n_complete:
                return f"TimeoutError at {e[1]} although the client had disconnected at {res['eof_time']} < deadline {deadline}"
    # (5) generators closed exactly once, none left open, connection closed
    starts = [e[1] for e in log if e[0] == "gen-start"]
    fins = [e[1] for e in log if e[0] == "gen-finally"]
    if sorted(starts) != sorted(fins):
        return f"generator bookkeeping: started {starts}, finalized {fins}"
    if res["open_gens"] != 0:
        return f"{res['open_gens']} handler generators left suspended"
    if not res["closed"]:
        return "the connection's transport was not closed"
    if p["level"] == "high":
        nc = sum(1 for e in log if e[0] == "on_connection")
        nd = sum(1 for e in log if e[0] == "on_disconnection")
        # documented: on_disconnection runs iff on_connection completed
        oc_gens = [e for e in log if e[0] == "gen-start" and e[2] == "on_connection"]
        oc_done = p["on_connection"] in ("coro", "gen0") or any(e[0] == "gen-return" and e[2] == "on_connection" for e in log)
        if nc != 1 or nd != (1 if oc_done else 0):
            return f"on_connection ran {nc}x (completed={oc_done}), on_disconnection ran {nd}x"
    # (6) echo: bytes written back == delivered valid requests (send may fail after close)
    if p["echo"] and close_i is None:
        exp_wire = b"".join(e[1].encode() + b"\n" for e in delivered if e[0] == "req")
        if not any(e[0] == "send-failed" for e in log) and res["wire"] != exp_wire:
            return f"echoed bytes {res['wire'][:60]!r} differ from the delivered requests"
    if ctx is not None:
        ctx.count("requests_checked", len(delivered))
        if len(starts) > 2 or (p["level"] == "high" and len([s for s in starts]) >= 2 and p["per_gen"] is not None):
            ctx.count("generator_restarts")
        for a, b in zip(delivered, delivered[1:]):
            if a[0] == "err" and b[0] == "req":
                ctx.count("parse_error_then_valid")
                break
        if any(e[0] == "timeout" for e in log):
            ctx.count("timeouts_thrown")
        if close_i is not None:
            ctx.count("client_closed_by_handler")
        if cut not in ends and cut not in (0, res["stream_len"]):
            ctx.count("disconnect_mid_frame")
        if p["level"] == "high" and p["on_connection"].startswith("gen"):
            ctx.count("on_connection_generator")
        if p["timeout"] and p.get("tmode", "yield") != "yield" and any(e[0] == "timeout" for e in log):
            ctx.count("timeout_from_scope_around_yield")
            if p["level"] == "high" and p["on_connection"] in ("gen1", "gen2") and any(e[0] == "timeout" for e in log[: next((i for i, e in enumerate(log) if e[0] == "gen-return" and e[2] == "on_connection"), len(log))]):
                ctx.count("scope_timeout_inside_on_connection_generator")
    return None


def plan(tier: str, seed: int) -> list[dict]:
    n = 250 if tier == "quick" else 8000
    return [{"seed": seed * 1000 + k, "conns": n} for k in range(16)]


def run_shard(params: dict, ctx) -> None:
    rng = random.Random(params["seed"])
    for i in range(params["conns"]):
        if ctx.should_stop(100):
            return
        p = gen_params(rng)
        ctx.count(f"level:{p['level']}")
        ctx.count("path:buffered" if p["buffered"] else "path:copy")
        res = run_conn(p)
        why = decide(p, res, ctx)
        nontrivial = len(p["frames"]) >= 3 and (("U" in p["frames"]) or p["per_gen"] is not None or p["timeout"] is not None)
        ctx.case(nontrivial, repr(sorted(p.items())))
        if why:
            cat = "deadlock" if "deadlock" in why or "never finished" in why else "timeout" if "Timeout" in why else "lifecycle" if ("generator" in why or "closed" in why or "on_connection" in why) else "sequence"
            ctx.violation(f"{cat}:{p['level']}:{'buffered' if p['buffered'] else 'copy'}", f"[{p['level']}] {why}", {"params": p, "log_tail": [list(map(str, e)) for e in res["log"][-12:]]})
        if i == 0:
            ctx.sample({k: v for k, v in p.items() if k != "delays"})


def replay(witness: dict, ctx) -> None:
    p = witness["params"]
    res = run_conn(p)
    why = decide(p, res, None)
    if why:
        ctx.violation("replayed", why, witness)
