"""C01 — stream round-trip: packets survive any chunking of the byte stream.

Monitor: send -> chunk -> receive differential. The real producer makes the stream, the real consumers
(copying and buffer-filling) are driven exactly as the endpoints drive them, over generated chunkings,
fill sizes and buffer hints; the received list must equal the sent list, nothing may be left over.
"""

from __future__ import annotations

import random
from typing import Any

from vlib import drive, gen
from vlib.runner import HangDetected, cpu_guard

CPU_BUDGET = 20  # seconds of user CPU for one case that normally costs ~100 microseconds

PROPERTY = "C01"
LEVEL = "exploration"
RULE = (
    "case = (serializer configuration, packet list, chunking or fill sequence + buffer hint, receive path); packets drawn "
    "from each serializer's valid domain, chunkings = whole / byte-by-byte / random compositions / cuts targeted at "
    "separators, escapes, multi-byte characters, frame boundaries (thorough: all 2^(n-1) compositions of streams <= 13 bytes). "
    "non-trivial = at least 2 packets and at least one cut strictly inside a frame; distinct = distinct "
    "(config, stream, chunking, path, hint) signatures"
)
ASSUMPTIONS = [
    "packets are drawn from each serializer's documented valid domain (line: non-empty text without the separator, "
    "keep_end=True texts end with exactly one separator; JSON: no NaN, string keys; struct: values that are fixed points of pack/unpack)",
    "cbor / msgpack / encryptor serializers are not exercised (dependencies not installed in this sandbox)",
    "pickle is only exercised through a restricted Unpickler (find_class refuses everything)",
    "packet equality is decided on repr() (type-exact, -0.0 != 0.0)",
]
REQUIRED = [
    "cut_in_separator",
    "cut_in_multibyte_char",
    "cut_after_backslash",
    "cut_in_fixed_frame",
    "cut_in_compressed_frame",
    "cut_at_frame_boundary",
    "fill_1_byte",
    "fill_ends_at_frame_end",
    "three_packets_from_one_chunk",
    "buffered_cases",
    "copy_cases",
    "oneshot_cases",
    "interleaved_streams_on_one_protocol",
    "coalesced_stream_larger_than_limit",
]
EXHAUSTIVE = {"quick": False, "thorough": False}
WATCHDOG = {"quick": 900, "thorough": 7200}


LIMITS = [4096, 16384, 8192, 65536]  # serializer limit option, rotated per shard; a case whose largest frame is not far below it uses 64 KiB


def plan(tier: str, seed: int) -> list[dict]:
    n = 16
    iters = 40 if tier == "quick" else 900
    shards = [{"seed": seed * 1000 + k, "iters": iters, "exhaustive": False} for k in range(n)]
    if tier == "thorough":
        names = [c.name for c in gen.all_configs()]
        for k in range(16):
            shards.append({"seed": seed * 1000 + 500 + k, "iters": 0, "exhaustive": True, "configs": names[k::16]})
    return shards


def _interesting(cfg: gen.Config, stream: bytes, ends: list[int]) -> list[int]:
    pts = set(ends)
    for e in ends:
        pts.update((e - 1, e + 1))
    for i, b in enumerate(stream):
        if b in (0x5C, 0x22, 0x0A, 0x0D) or b >= 0x80:
            pts.add(i)
            pts.add(i + 1)
    return sorted(p for p in pts if 0 < p < len(stream))


def _classify(ctx, cfg: gen.Config, stream: bytes, ends: list[int], cuts: list[int]) -> bool:
    """update cut counters; returns True if some cut is strictly inside a frame"""
    inside = False
    endset = set(ends)
    seplen = len(cfg.separator) if cfg.separator else 0
    utf8 = "utf" in cfg.name or "json" in cfg.name or cfg.name == "lenfile"
    for c in cuts:
        if c in endset:
            ctx.count("cut_at_frame_boundary")
            continue
        inside = True
        if seplen >= 2 and any(e - seplen < c < e for e in ends):
            ctx.count("cut_in_separator")
        if utf8 and (stream[c] & 0xC0) == 0x80:
            ctx.count("cut_in_multibyte_char")
        if stream[c - 1] == 0x5C:
            ctx.count("cut_after_backslash")
        if cfg.kind == "fixed":
            ctx.count("cut_in_fixed_frame")
        elif cfg.kind == "compress":
            ctx.count("cut_in_compressed_frame")
    return inside


def _cmp(out: list, expected: list) -> str | None:
    if len(out) != len(expected):
        return f"delivered {len(out)} items, expected {len(expected)}"
    for i, (o, e) in enumerate(zip(out, expected)):
        if o[0] != "P":
            return f"item {i} is an error {o!r}"
        if repr(o[1]) != repr(e):
            return f"item {i} differs: got {o[1]!r} expected {e!r}"
    return None


def _priv(obj: Any, cls: str, name: str, default: Any = "<missing>") -> Any:
    return getattr(obj, f"_{cls}__{name}", default)


def check_one(ctx, cfg: gen.Config, protos: tuple, packets: list, stream: bytes, ends: list[int], cuts: list[int], hint: int, rng_tag: Any) -> None:
    sproto, bproto = protos
    expected = [cfg.expect(p) for p in packets]
    inside = _classify(ctx, cfg, stream, ends, cuts)
    nontrivial = len(packets) >= 2 and inside
    chunks = gen.chunks_from_cuts(stream, cuts)

    def witness(path: str, why: str) -> dict:
        return {
            "config": cfg.name,
            "path": path,
            "why": why,
            "packets": [repr(p) for p in packets],
            "stream": stream,
            "cuts": cuts,
            "hint": hint,
            "tag": rng_tag,
        }

    # --- copying consumer
    ctx.count("copy_cases")
    ctx.case(nontrivial, cfg.name, stream, tuple(cuts), "copy")
    try:
        from easynetwork.lowlevel._stream import StreamDataConsumer

        consumer = StreamDataConsumer(sproto)
        out: list = []
        with cpu_guard(CPU_BUDGET):
            drive.drain_copy(consumer, None, out)
            for c in chunks:
                before = len(out)
                drive.drain_copy(consumer, c, out)
                if len(out) - before >= 3:
                    ctx.count("three_packets_from_one_chunk")
        left = bytes(consumer.get_buffer())
        why = _cmp(out, expected)
        if why is None and left:
            why = f"{len(left)} bytes left over after the last packet: {left[:40]!r}"
        if why is None and _priv(consumer, "StreamDataConsumer", "consumer", None) is not None:
            why = "a half-parsed frame is pending after the last packet"
        out_copy = out
    except (Exception, HangDetected) as exc:  # noqa: BLE001
        why = f"exception {type(exc).__name__}: {exc}"
        out_copy = None
    if why:
        ctx.violation(f"roundtrip-copy:{cfg.name.split('-')[0]}", f"copying consumer: {why}", witness("copy", why))

    # --- buffer-filling consumer
    out_buf = None
    if bproto is not None:
        ctx.count("buffered_cases")
        fills = gen.fills_from_cuts(len(stream), cuts)
        if 1 in fills:
            ctx.count("fill_1_byte")
        ctx.case(nontrivial, cfg.name, stream, tuple(cuts), "buf", hint)
        try:
            from easynetwork.lowlevel._stream import BufferedStreamDataConsumer

            consumer_b = BufferedStreamDataConsumer(bproto, hint)
            out = []
            with cpu_guard(CPU_BUDGET):
                _drive_buffered(ctx, consumer_b, stream, fills, out, set(ends))
            why = _cmp(out, expected)
            if why is None:
                aw = _priv(consumer_b, "BufferedStreamDataConsumer", "already_written", 0)
                pend = _priv(consumer_b, "BufferedStreamDataConsumer", "consumer", None)
                if aw:
                    why = f"{aw} re-injected bytes left over after the last packet"
                elif pend is not None:
                    why = "a half-parsed frame is pending after the last packet"
            out_buf = out
        except (Exception, HangDetected) as exc:  # noqa: BLE001
            why = f"exception {type(exc).__name__}: {exc}"
        if why:
            ctx.violation(f"roundtrip-buffered:{cfg.name.split('-')[0]}", f"buffer-filling consumer: {why}", witness("buffered", why))
        if out_buf is not None and out_copy is not None and repr(out_buf) != repr(out_copy):
            ctx.violation(f"paths-disagree:{cfg.name.split('-')[0]}", "copying and buffer-filling consumers disagree", witness("both", "disagree"))


def _drive_buffered(ctx, consumer, stream: bytes, fills: list[int], out: list, endset: set[int]) -> None:
    from easynetwork.exceptions import StreamProtocolParseError

    def drain(n):
        first = True
        for _ in range(100000):
            try:
                pkt = consumer.next(n if first else None)
            except StopIteration:
                return
            except StreamProtocolParseError as exc:
                out.append(("E", type(exc).__name__, type(exc.error).__name__))
            else:
                out.append(("P", pkt))
            finally:
                first = False
        raise AssertionError("no progress")

    drain(None)
    pos = 0
    i = 0
    while pos < len(stream):
        fill = fills[i % len(fills)]
        i += 1
        with memoryview(consumer.get_write_buffer()) as view:
            n = min(view.nbytes, fill, len(stream) - pos)
            view[:n] = stream[pos : pos + n]
        pos += n
        if pos in endset:
            ctx.count("fill_ends_at_frame_end")
        before = len(out)
        drain(n)
        if len(out) - before >= 3:
            ctx.count("three_packets_from_one_chunk")


def _oneshot(ctx, cfg: gen.Config, ser: Any, packets: list) -> None:
    for p in packets:
        ctx.count("oneshot_cases")
        ctx.evaluations += 1
        try:
            conv = cfg.converter
            dto = conv.convert_to_dto_packet(p) if conv else p
            got = ser.deserialize(ser.serialize(dto))
            if conv:
                got = conv.create_from_dto_packet(got)
            if repr(got) != repr(cfg.expect(p)):
                raise AssertionError(f"got {got!r}")
        except Exception as exc:  # noqa: BLE001
            ctx.violation(f"oneshot:{cfg.name.split('-')[0]}", f"one-shot round trip failed: {type(exc).__name__}: {exc}", {"config": cfg.name, "packet": repr(p)})


def run_shard(params: dict, ctx) -> None:
    rng = random.Random(params["seed"])
    cfgs = gen.all_configs()
    if params.get("configs"):
        cfgs = [c for c in cfgs if c.name in params["configs"]]
    ctx.notes["configurations"] = len(gen.all_configs())
    for cfg in cfgs:
        ser = cfg.serializer()
        lim = LIMITS[(params["seed"] + len(cfg.name)) % len(LIMITS)]
        protos = (cfg.stream_protocol(lim), cfg.buffered_protocol(lim))
        if params.get("exhaustive"):
            _exhaustive(ctx, cfg, protos, rng)
            continue
        for it in range(params["iters"]):
            n = rng.choice([1, 2, 2, 3, 3, 4, 6])
            packets = [cfg.gen_packet(rng) for _ in range(n)]
            try:
                stream, ends, _ = drive.produce(protos[0], packets)
            except Exception as exc:  # noqa: BLE001
                ctx.violation(f"produce:{cfg.name.split('-')[0]}", f"producer raised {type(exc).__name__}: {exc}", {"config": cfg.name, "packets": [repr(p) for p in packets]})
                continue
            case_protos = protos
            if cfg.has_limit and max(b - a for a, b in zip([0] + ends, ends)) > lim // 4:
                case_protos = (cfg.stream_protocol(65536), cfg.buffered_protocol(65536))  # C01 is about frames within the limit
                ctx.count("cases_moved_to_64k_limit")
            if it < 3:
                _oneshot(ctx, cfg, ser, packets)
            interesting = _interesting(cfg, stream, ends)
            chunkings = [gen.random_cuts(rng, len(stream)) for _ in range(3)]
            chunkings += [gen.targeted_cuts(rng, len(stream), interesting) for _ in range(3)]
            if interesting:
                chunkings.append([rng.choice(interesting)])
            chunkings.append(list(ends[:-1]))
            for cuts in chunkings:
                hint = rng.choice(gen.HINTS)
                check_one(ctx, cfg, case_protos, packets, stream, ends, cuts, hint, [params["seed"], it])
            if it < 2 and cfg.has_limit and cfg.kind in ("sep", "json-raw", "compress"):
                # many small frames coalesced into reads larger than the limit: the limit bounds one frame, not what a read
                # happens to carry behind it (the file-based serializers document theirs as a buffer size: not exercised here)
                many = [cfg.gen_packet(rng) for _ in range(12)]
                try:
                    st2, ends2, _ = drive.produce(protos[0], many)
                except Exception:  # noqa: BLE001
                    st2 = None
                if st2 is not None:
                    big = max(b - a for a, b in zip([0] + ends2, ends2))
                    small_limit = max(32, 4 * big + 8)
                    if len(st2) > small_limit:
                        ctx.count("coalesced_stream_larger_than_limit")
                        cp = (cfg.stream_protocol(small_limit), cfg.buffered_protocol(small_limit))
                        for cuts in ([], list(ends2[2::3][:-1]) if len(ends2) > 3 else [], gen.random_cuts(rng, len(st2)), [c for c in range(small_limit + 1, len(st2), small_limit + 1)]):
                            check_one(ctx, cfg, cp, many, st2, ends2, cuts, rng.choice(gen.HINTS), [params["seed"], it, "coalesced", small_limit])
            if it < 2:
                # two connections served by ONE protocol object (what every server does): their chunks interleave, and a third
                # stream is abandoned in the middle of a frame; nothing of one stream may show up in another
                pa = [cfg.gen_packet(rng) for _ in range(rng.randint(1, 3))]
                pb = [cfg.gen_packet(rng) for _ in range(rng.randint(1, 3))]
                try:
                    sa, _ea, _ = drive.produce(protos[0], pa)
                    sb, _eb, _ = drive.produce(protos[0], pb)
                except Exception:  # noqa: BLE001
                    sa = None
                if sa is not None and len(sa) >= 2 and len(sb) >= 2:
                    from easynetwork.lowlevel._stream import StreamDataConsumer

                    ctx.count("interleaved_streams_on_one_protocol")
                    ca = gen.chunks_from_cuts(sa, gen.random_cuts(rng, len(sa)))
                    cb = gen.chunks_from_cuts(sb, gen.random_cuts(rng, len(sb)))
                    dead = StreamDataConsumer(case_protos[0])
                    outd: list = []
                    drive.drain_copy(dead, sa[: max(1, len(sa) // 2)], outd)  # abandoned mid-stream, never fed again
                    consa, consb = StreamDataConsumer(case_protos[0]), StreamDataConsumer(case_protos[0])
                    outa: list = []
                    outb: list = []
                    qa, qb = list(ca), list(cb)
                    while qa or qb:
                        if qa and (not qb or rng.random() < 0.5):
                            drive.drain_copy(consa, qa.pop(0), outa)
                        else:
                            drive.drain_copy(consb, qb.pop(0), outb)
                    for nm, out_, pk in (("A", outa, pa), ("B", outb, pb)):
                        exp = [("P", cfg.expect(p)) for p in pk]
                        if [repr(x) for x in out_] != [repr(x) for x in exp]:
                            ctx.violation(f"interleaved-streams:{cfg.name.split('-')[0]}", f"two streams interleaved on one protocol object: stream {nm} delivered {out_!r:.200}, expected {exp!r:.200}", {"config": cfg.name, "path": "copy", "why": "interleaved", "packets": [repr(p) for p in pa + pb], "stream": {"hex": (sa + sb).hex()[:2000]}, "cuts": [], "hint": 0, "tag": [params["seed"], it, "interleaved"]})
                            break
            if it == 0 and len(ctx.samples) < 3:
                ctx.sample({"config": cfg.name, "packets": [repr(p) for p in packets][:3], "stream": stream[:80], "cuts": chunkings[3], "hint": hint})


def _exhaustive(ctx, cfg: gen.Config, protos: tuple, rng: random.Random) -> None:
    # every composition of a short stream (<= 13 bytes), 2 streams per configuration
    done = 0
    tries = 0
    while done < 2 and tries < 200:
        tries += 1
        packets = [cfg.gen_packet(rng) for _ in range(rng.choice([2, 3]))]
        try:
            stream, ends, _ = drive.produce(protos[0], packets)
        except Exception:  # noqa: BLE001
            continue
        if not (3 <= len(stream) <= 13):
            continue
        done += 1
        ctx.count("exhaustive_streams")
        for cuts in gen.all_compositions(len(stream)):
            check_one(ctx, cfg, protos, packets, stream, ends, cuts, rng.choice(gen.HINTS), "exh")
    if done == 0:
        ctx.count("exhaustive_skipped_configs")


def replay(witness: dict, ctx) -> None:
    cfg = gen.config_by_name(witness["config"])
    tag = witness.get("tag")
    lim = tag[3] if isinstance(tag, list) and len(tag) > 3 and tag[2] == "coalesced" else None
    protos = (cfg.stream_protocol(lim), cfg.buffered_protocol(lim))
    stream = bytes.fromhex(witness["stream"]["hex"])
    # re-derive packets by decoding is impossible in general: re-run drivers and compare the two paths + one-shot frames
    import ast

    packets = []
    for r in witness["packets"]:
        try:
            packets.append(eval(r, {"Person": gen.Person, "Point": gen.Point, "inf": float("inf"), "nan": float("nan")}))  # noqa: S307
        except Exception:  # noqa: BLE001
            packets.append(r)
    s2, ends, _ = drive.produce(protos[0], packets)
    check_one(ctx, cfg, protos, packets, s2, ends, witness["cuts"], witness["hint"], "replay")
