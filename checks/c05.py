"""C05 — datagrams: one packet per datagram, boundaries preserved, errors isolated.

Monitor: conservation between packets and datagrams. Sending p1..pn through a datagram endpoint / UDP client must put exactly n
datagrams on the wire (raw peer socket, or the in-memory transport's log) whose payloads deserialize to p_i; feeding a sequence
of valid and malformed datagrams must yield, datagram for datagram, exactly one packet or exactly one parse error, with nothing
carried over. Every serializer configuration is exercised through its one-shot interface (DatagramProtocol), including the
incremental ones, with converters.
"""

from __future__ import annotations

import asyncio
import random
import socket
from typing import Any

from easynetwork.exceptions import DatagramProtocolParseError
from easynetwork.lowlevel.api_async.backend._asyncio.backend import AsyncIOBackend
from easynetwork.lowlevel.api_async.endpoints.datagram import AsyncDatagramEndpoint
from easynetwork.lowlevel.api_sync.endpoints.datagram import DatagramEndpoint
from easynetwork.lowlevel.api_sync.transports.socket import SocketDatagramTransport

from vlib import netutil  # noqa: E402
from vlib import gen, memtransport, vloop
from vlib.runner import HangDetected, cpu_guard

PROPERTY = "C05"
LEVEL = "exploration"
RULE = (
    "case = (serializer configuration in one-shot mode, endpoint kind in {protocol only, sync endpoint, async endpoint over memory, sync "
    "UDP client, async UDP client over loopback}, direction, sequence of 1..8 datagrams mixing valid payloads, random bytes, truncations, "
    "two payloads concatenated, payload + trailing byte, truncated payload followed by its tail, empty payloads). non-trivial = the "
    "sequence mixes valid and malformed datagrams (receive) or has >= 2 packets (send); distinct = distinct (config, kind, sequence)"
)
ASSUMPTIONS = [
    "UDP loopback volumes stay far below socket buffers; a run in which the raw peer sees fewer datagrams than were sent AND the send side reported them all as handed to the kernel is a violation only for the empty-payload mechanism, otherwise inconclusive",
    "packets are drawn from each serializer's valid one-shot domain; equality is decided on repr()",
    "pickle only through a restricted Unpickler",
]
REQUIRED = [
    "kind:protocol",
    "kind:sync-endpoint",
    "kind:async-endpoint-mem",
    "kind:sync-udp-client",
    "kind:async-udp-client",
    "malformed_between_valid",
    "truncated_then_tail",
    "concatenated_payloads",
    "empty_payloads",
    "datagrams_sent_checked",
    "datagrams_received_checked",
    "big_datagrams_received",
]
WATCHDOG = {"quick": 900, "thorough": 7200}


def _udp_pair():
    a, b = netutil.udp_pair()
    b.setsockopt(socket.SOL_SOCKET, socket.SO_RCVBUF, 1 << 20)
    a.setsockopt(socket.SOL_SOCKET, socket.SO_RCVBUF, 1 << 20)
    return a, b


def _drain(sock: socket.socket) -> list[bytes]:
    sock.setblocking(False)
    out = []
    try:
        while True:
            out.append(sock.recv(65536))
    except BlockingIOError:
        pass
    return out


def oneshot_packet(cfg: gen.Config, rng: random.Random):
    """packet + its one-shot wire form, or None when the one-shot form is empty and the packet cannot be told apart"""
    p = cfg.gen_packet(rng)
    return p


def gen_dgram_packet(cfg: gen.Config, rng: random.Random):
    """datagram-mode packets: the stream domain plus the packets whose one-shot form is empty"""
    if rng.random() < 0.15:
        if cfg.name.startswith("line-") and cfg.name.endswith("strip"):
            return ""
        if cfg.name.startswith("rawsep"):
            return b""
    return cfg.gen_packet(rng)


def gen_recv_sequence(cfg: gen.Config, proto, rng: random.Random, ctx) -> list[tuple[bytes, Any]]:
    """[(datagram, expected)] expected = ('P', value) | ('E',) | ('?',) (either)"""
    seq: list[tuple[bytes, Any]] = []
    n = rng.randint(1, 8)
    pending_tail = None
    while len(seq) < n:
        r = rng.random()
        p = cfg.gen_packet(rng)
        try:
            d = proto.make_datagram(p)
        except Exception:  # noqa: BLE001
            continue
        if r < 0.5:
            seq.append((d, ("P", cfg.expect(p))))
        elif r < 0.6:
            seq.append((bytes(rng.getrandbits(8) for _ in range(rng.randint(1, 40))), ("?",)))
        elif r < 0.7 and len(d) >= 2:
            k = rng.randrange(1, len(d))
            seq.append((d[:k], ("?",)))
            seq.append((d[k:], ("?T", cfg.expect(p))))
            ctx.count("truncated_then_tail")
        elif r < 0.8:
            p2 = cfg.gen_packet(rng)
            try:
                d2 = proto.make_datagram(p2)
            except Exception:  # noqa: BLE001
                continue
            seq.append((d + d2, ("?",)))
            ctx.count("concatenated_payloads")
        elif r < 0.9:
            seq.append((d + bytes([rng.getrandbits(8)]), ("?",)))
        else:
            seq.append((b"", ("?",)))
            ctx.count("empty_payloads")
    if cfg.inner_pickle or cfg.name.startswith("picklefile"):
        # pickle's own documented unsafety, not the library's: a malformed datagram may be a resource bomb for the C unpickler
        # (memo opcodes with huge indices, huge length prefixes): gigabytes / minutes before any library code decides anything;
        # a worker was killed by the kernel that way in a thorough run. Same lexical screen as C06; screened datagrams are dropped.
        from checks.c06 import _maybe_unwrap, _pickle_resource_bomb

        kept = [(d, e) for d, e in seq if e[0] == "P" or not _pickle_resource_bomb(_maybe_unwrap(cfg, d))]
        if len(kept) != len(seq):
            ctx.count("skipped_pickle_resource_bombs", len(seq) - len(kept))
            # a dropped first half of a truncated pair would orphan its tail: keep the pairing simple by dropping '?T' tails too
            kept = [(d, e) for d, e in kept if e[0] != "?T"]
        seq = kept
    return seq


def _alone(cfg: gen.Config, d: bytes) -> tuple:
    """what this datagram decodes to on its own, with a fresh protocol object (no history)"""
    try:
        return ("P", cfg.datagram_protocol().build_packet_from_datagram(d))
    except DatagramProtocolParseError:
        return ("E",)


def judge_recv(cfg: gen.Config, seq: list, results: list) -> str | None:
    if len(results) != len(seq):
        return f"{len(seq)} datagrams delivered to the endpoint but {len(results)} results came out"
    for i, ((d, exp), r) in enumerate(zip(seq, results)):
        if r[0] not in ("P", "E"):
            return f"datagram #{i}: unexpected result {r!r}"
        if exp[0] == "P":
            if r[0] != "P" or repr(r[1]) != repr(exp[1]):
                return f"datagram #{i} ({d[:30]!r}) should decode to {exp[1]!r}, got {r!r}"
        else:
            # independence: whatever surrounds it, a datagram decodes exactly as it does on its own (nothing carried over)
            alone = _alone(cfg, d)
            if r[0] != alone[0] or (r[0] == "P" and repr(r[1]) != repr(alone[1])):
                return f"datagram #{i} ({d[:30]!r}) gives {str(r)[:80]} in this sequence but {str(alone)[:80]} on its own: data carried over between datagrams"
    return None


def run_protocol(ctx, cfg: gen.Config, rng: random.Random) -> str | None:
    proto = cfg.datagram_protocol()
    seq = gen_recv_sequence(cfg, proto, rng, ctx)
    results = []
    for d, _ in seq:
        try:
            with cpu_guard(20):
                results.append(("P", proto.build_packet_from_datagram(d)))
        except DatagramProtocolParseError:
            results.append(("E",))
        except (Exception, HangDetected) as exc:  # noqa: BLE001
            results.append(("X", f"{type(exc).__name__}: {exc}"))
    ctx.count("datagrams_received_checked", len(seq))
    _mix(ctx, seq)
    return judge_recv(cfg, seq, results)


def _mix(ctx, seq) -> None:
    kinds = [e[0] for _, e in seq]
    for a, b in zip(kinds, kinds[1:]):
        if a != "P" and b == "P":
            ctx.count("malformed_between_valid")
            break


def run_sync(ctx, cfg: gen.Config, rng: random.Random, client: bool) -> str | None:
    proto = cfg.datagram_protocol()
    a, b = _udp_pair()
    try:
        if client:
            from easynetwork.clients.udp import UDPNetworkClient

            ep: Any = UDPNetworkClient(a, proto)
        else:
            ep = DatagramEndpoint(SocketDatagramTransport(a, retry_interval=1.0), proto)
        # ---- send direction
        packets = [gen_dgram_packet(cfg, rng) for _ in range(rng.randint(1, 6))]
        sent = []
        for p in packets:
            try:
                expected_wire = proto.make_datagram(p)
            except Exception:  # noqa: BLE001
                continue
            ep.send_packet(p, timeout=5)
            sent.append((p, expected_wire))
        got = _drain(b)
        ctx.count("datagrams_sent_checked", len(sent))
        if len(got) != len(sent):
            empties = sum(1 for _, w in sent if not w)
            return f"{len(sent)} send_packet calls produced {len(got)} datagrams ({empties} of the payloads are empty)"
        for i, ((p, w), g) in enumerate(zip(sent, got)):
            if g != w:
                return f"datagram #{i} on the wire is {g[:40]!r}, expected {w[:40]!r}"
            back = proto.build_packet_from_datagram(g)
            if repr(back) != repr(cfg.expect(p)):
                return f"datagram #{i} deserializes to {back!r}, sent {p!r}"
        # ---- receive direction
        seq = gen_recv_sequence(cfg, proto, rng, ctx)
        seq = [(d, e) for d, e in seq if len(d) < 60000]
        for d, _ in seq:
            b.send(d)
        results = []
        for _ in seq:
            try:
                results.append(("P", ep.recv_packet(timeout=5)))
            except DatagramProtocolParseError:
                results.append(("E",))
            except TimeoutError:
                results.append(("X", "TimeoutError: a datagram was not delivered"))
            except Exception as exc:  # noqa: BLE001
                results.append(("X", f"{type(exc).__name__}: {exc}"))
        try:
            extra = ep.recv_packet(timeout=0)
            return f"an extra packet came out after all datagrams were consumed: {extra!r}"
        except (TimeoutError, DatagramProtocolParseError):
            pass
        ctx.count("datagrams_received_checked", len(seq))
        _mix(ctx, seq)
        return judge_recv(cfg, seq, results)
    finally:
        try:
            ep.close()
        except Exception:  # noqa: BLE001
            a.close()
        b.close()


def run_async(ctx, cfg: gen.Config, rng: random.Random, client: bool) -> str | None:
    proto = cfg.datagram_protocol()
    out: dict[str, Any] = {"why": None}

    async def main(loop):
        backend = AsyncIOBackend()
        a = b = None
        mem = None
        if client:
            from easynetwork.clients.async_udp import AsyncUDPNetworkClient

            a, b = _udp_pair()
            a.setblocking(False)
            ep: Any = AsyncUDPNetworkClient(a, proto, backend)
            await ep.wait_connected()
        else:
            mem = memtransport.MemDatagramTransport(backend)
            ep = AsyncDatagramEndpoint(mem, proto)
        try:
            packets = [gen_dgram_packet(cfg, rng) for _ in range(rng.randint(1, 6))]
            sent = []
            for p in packets:
                try:
                    w = proto.make_datagram(p)
                except Exception:  # noqa: BLE001
                    continue
                await ep.send_packet(p)
                sent.append((p, w))
            for _ in range(3):
                await asyncio.sleep(0)
            got = _drain(b) if client else list(mem.sent)
            ctx.count("datagrams_sent_checked", len(sent))
            if len(got) != len(sent):
                empties = sum(1 for _, w in sent if not w)
                out["why"] = f"{len(sent)} send_packet calls produced {len(got)} datagrams ({empties} of the payloads are empty)"
                out["empties"] = empties
                out["missing"] = len(sent) - len(got)
                return
            for i, ((p, w), g) in enumerate(zip(sent, got)):
                if g != w:
                    out["why"] = f"datagram #{i} on the wire is {g[:40]!r}, expected {w[:40]!r}"
                    return
            seq = gen_recv_sequence(cfg, proto, rng, ctx)
            seq = [(d, e) for d, e in seq if len(d) < 60000]
            for d, _ in seq:
                if client:
                    b.send(d)
                else:
                    mem.feed(d)
            results = []
            for _ in seq:
                try:
                    with backend.timeout(5):
                        results.append(("P", await ep.recv_packet()))
                except DatagramProtocolParseError:
                    results.append(("E",))
                except TimeoutError:
                    results.append(("X", "TimeoutError: a datagram was not delivered"))
                except Exception as exc:  # noqa: BLE001
                    results.append(("X", f"{type(exc).__name__}: {exc}"))
            ctx.count("datagrams_received_checked", len(seq))
            _mix(ctx, seq)
            out["why"] = judge_recv(cfg, seq, results)
        finally:
            await ep.aclose()
            if b is not None:
                b.close()

    try:
        vloop.run(main)
    except vloop.Quiescent as exc:
        return f"deadlock: {exc}"
    if out["why"] and out.get("empties") and out.get("missing") == out.get("empties"):
        return "EMPTY-DROPPED " + out["why"]
    return out["why"]


KINDS = ["protocol", "sync-endpoint", "async-endpoint-mem", "sync-udp-client", "async-udp-client"]


def run_big_datagrams(ctx, rng: random.Random) -> str | None:
    """datagrams at and just below / above the classic size limits (65507 = IPv4 UDP maximum, 65527 = IPv6 UDP maximum, 65536), over the
    families that can carry them (IPv6 loopback, AF_UNIX datagram socketpair), received through the blocking endpoint and UDP client:
    one datagram in, exactly that payload out"""
    from easynetwork.clients.udp import UDPNetworkClient
    from easynetwork.protocol import DatagramProtocol
    from easynetwork.serializers.abc import AbstractPacketSerializer

    class Raw(AbstractPacketSerializer[bytes, bytes]):
        def serialize(self, packet: bytes) -> bytes:
            return bytes(packet)

        def deserialize(self, data: bytes) -> bytes:
            return bytes(data)

    proto = DatagramProtocol(Raw())
    sizes = [65506, 65507, 65508, 65527]
    pairs: list = []
    if socket.has_ipv6:
        try:
            a6 = socket.socket(socket.AF_INET6, socket.SOCK_DGRAM)
            b6 = socket.socket(socket.AF_INET6, socket.SOCK_DGRAM)
            a6.bind(("::1", 0))
            b6.bind(("::1", 0))
            a6.connect(b6.getsockname())
            b6.connect(a6.getsockname())
            pairs.append(("ipv6", a6, b6, sizes))
        except OSError:
            pass
    try:
        au, bu = socket.socketpair(socket.AF_UNIX, socket.SOCK_DGRAM)
        pairs.append(("unix", au, bu, sizes + [65535, 65536]))  # up to the documented receive buffer (64 KiB); larger is outside UDP
    except OSError:
        pass
    why = None
    for fam, a, b, szs in pairs:
        for sk in (a, b):
            try:
                sk.setsockopt(socket.SOL_SOCKET, socket.SO_SNDBUF, 1 << 20)
                sk.setsockopt(socket.SOL_SOCKET, socket.SO_RCVBUF, 1 << 20)
            except OSError:
                pass
        use_client = fam == "ipv6" and rng.random() < 0.5
        try:
            ep: Any = UDPNetworkClient(a, proto) if use_client else DatagramEndpoint(SocketDatagramTransport(a, retry_interval=1.0), proto)
        except Exception as exc:  # noqa: BLE001
            a.close()
            b.close()
            return f"cannot build a blocking endpoint over a {fam} datagram socket: {type(exc).__name__}: {exc}"
        try:
            for n in szs:
                payload = bytes((i * 31 + n) % 251 for i in range(n))
                try:
                    b.send(payload)
                except OSError:
                    continue  # this family / kernel does not carry that size: not the library's doing
                ctx.count("big_datagrams_received")
                got = ep.recv_packet(timeout=5)
                if got != payload and why is None:
                    why = f"{fam}: a datagram of {n} bytes was received as {len(got)} bytes" + ("" if payload.startswith(got) else " (not even a prefix)")
                # and back out through the sender side
                try:
                    ep.send_packet(payload, timeout=5)
                    echoed = b.recv(1 << 17)
                    if echoed != payload and why is None:
                        why = f"{fam}: send_packet of {n} bytes put {len(echoed)} bytes on the wire"
                except OSError:
                    pass
        except Exception as exc:  # noqa: BLE001
            if why is None:
                why = f"{fam}: {type(exc).__name__}: {exc}"
        finally:
            try:
                ep.close()
            except Exception:  # noqa: BLE001
                pass
            b.close()
    return why


def plan(tier: str, seed: int) -> list[dict]:
    n = 3 if tier == "quick" else 200
    return [{"seed": seed * 1000 + k, "iters": n} for k in range(16)]


def run_shard(params: dict, ctx) -> None:
    rng = random.Random(params["seed"])
    cfgs = gen.all_configs()
    for cfg in cfgs:
        for it in range(params["iters"]):
            for kind in KINDS:
                if ctx.should_stop(100):
                    return
                if kind != "protocol" and (it + len(cfg.name)) % 3 != KINDS.index(kind) % 3:
                    continue
                ctx.count(f"kind:{kind}")
                try:
                    if kind == "protocol":
                        why = run_protocol(ctx, cfg, rng)
                    elif kind == "sync-endpoint":
                        why = run_sync(ctx, cfg, rng, False)
                    elif kind == "sync-udp-client":
                        why = run_sync(ctx, cfg, rng, True)
                    elif kind == "async-endpoint-mem":
                        why = run_async(ctx, cfg, rng, False)
                    else:
                        why = run_async(ctx, cfg, rng, True)
                except OSError as exc:
                    if getattr(exc, "errno", None) == 90:  # EMSGSIZE: payload bigger than a UDP datagram, not the property
                        why = None
                    else:
                        why = f"OSError {exc}"
                ctx.case(True, cfg.name, kind, params["seed"], it)
                if why:
                    if why.startswith("EMPTY-DROPPED"):
                        key = "asyncio-empty-datagram-dropped"
                    else:
                        cat = "carry-over" if "carried over" in why else "count" if "produced" in why or "results came out" in why or "extra packet" in why else "payload"
                        key = f"{cat}:{kind}:{cfg.name.split('-')[0]}"
                    ctx.violation(key, f"[{kind}/{cfg.name}] {why}", {"config": cfg.name, "kind": kind, "seed": params["seed"], "it": it})
    ctx.count("kind:big-datagrams")
    why = run_big_datagrams(ctx, rng)
    ctx.case(True, "big-datagrams", params["seed"])
    if why:
        ctx.violation("payload:big-datagram", f"[big datagrams] {why}", {"kind": "big-datagrams", "seed": params["seed"], "it": 0, "config": None})
    ctx.sample({"kinds": KINDS, "configs": len(cfgs), "sequence": "1..8 datagrams: valid | random | truncated+tail | concatenated | +1 byte | empty"})


def replay(witness: dict, ctx) -> None:
    run_shard({"seed": witness["seed"], "iters": witness["it"] + 1}, ctx)
