"""C04 — send_packet writes exactly the packet's bytes and always terminates.

Monitor: a fault-scripted socket (partial writes, EAGAIN, EINTR, zero-byte writes, resets) under a virtual clock and a
logical step budget; the peer end of the socketpair is read back. Returned => peer bytes == concatenation of the chunks;
TimeoutError / connection error => peer bytes are a prefix and virtual elapsed <= T; never a spin, bounded number of calls.
Async variants (asyncio adapter over a real socket with a tiny send buffer, async TLS over a suspending memory pipe) are
checked for exact bytes and termination on the virtual-time loop.
"""

from __future__ import annotations

import itertools
import math
import random
import socket
from typing import Any

from easynetwork.lowlevel import constants as _constants
from easynetwork.lowlevel.api_sync.endpoints.stream import StreamEndpoint
from easynetwork.lowlevel.api_sync.transports.socket import SocketStreamTransport
from easynetwork.protocol import StreamProtocol
from easynetwork.serializers.abc import AbstractIncrementalPacketSerializer

from vlib import netutil  # noqa: E402
from vlib import faultsock, vselect
from vlib.runner import HangDetected, cpu_guard

PROPERTY = "C04"
LEVEL = "fault_enumeration"
RULE = (
    "case = (chunk sequence incl. empty chunks in every position, per-call socket behaviour script over {EAGAIN, EINTR, partial-1, "
    "partial-half, zero, full, reset, epipe}, readiness delays, timeout in {inf, 5, 0.5, 0}, transport variant in {sendmsg, no-sendmsg, "
    "iov-disabled, endpoint.send_packet, tls-sync, asyncio-adapter, async-tls}); enumerated exhaustively up to the stated "
    "lengths, then random longer scripts. non-trivial = at least one fault entry in the script and at least 2 chunks; distinct = "
    "distinct (variant, chunks, script, delays, timeout)"
)
ASSUMPTIONS = [
    "the scripted socket is a socket.socket subclass over one end of a real socketpair; payloads stay far below kernel buffer sizes",
    "virtual time: ElapsedTime reads the harness clock; select() advances it by the scripted readiness delay",
    "step budget: 1000 consecutive socket calls without progress = spin",
]
REQUIRED = [
    "trailing_empty_chunk",
    "leading_empty_chunk",
    "only_empty_chunks",
    "partial_write_ends_at_chunk_boundary",
    "eagain_with_timeout_0",
    "timeouts_raised",
    "connection_errors_raised",
    "returned_ok",
    "variant:sendmsg",
    "variant:no-sendmsg",
    "variant:iov-disabled",
    "variant:endpoint",
    "variant:asyncio-adapter",
    "variant:async-tls",
    "send_after_resume_without_waiters",
    "variant:client-behind-send-lock",
    "variant:sync-tls",
]
EXHAUSTIVE = {"quick": False, "thorough": False}
WATCHDOG = {"quick": 900, "thorough": 7200}

PIECES = [b"", b"ab", b"cde"]
ACTIONS = ["eagain", "eintr", ("partial", 1), "half", "full", "zero"]
TIMEOUTS = [math.inf, 5.0, 0.5, 0.0]
DELAYS = [0.0, 0.25, 1.0, 10.0]


class ChunkSerializer(AbstractIncrementalPacketSerializer[list, bytes]):
    """harness serializer: the packet *is* its chunk sequence"""

    __slots__ = ()

    def incremental_serialize(self, packet):
        yield from packet

    def incremental_deserialize(self):
        data = yield
        return data, b""


class WriteWorld(vselect.World):
    def __init__(self, clock, delays: list[float]) -> None:
        super().__init__(clock)
        self.delays = list(delays)
        self.pending: float | None = None

    def on_select(self, fileno, event, timeout):
        if self.pending is None:
            self.pending = self.delays.pop(0) if self.delays else 0.0
        d = self.pending
        if timeout is None or d <= timeout:
            self.clock.advance(d)
            self.pending = None
            return True
        if timeout == 0 and d > 0:
            pass
        self.clock.advance(timeout)
        self.pending = d - timeout
        return False


def _resolve_script(script: list, total: int) -> list:
    out = []
    for a in script:
        if a == "half":
            out.append(("partial", max(1, total // 2)))
        else:
            out.append(tuple(a) if isinstance(a, list) else a)
    return out


def run_sync_case(ctx, variant: str, chunks: list[bytes], script: list, delays: list[float], T: float) -> str | None:
    total = sum(len(c) for c in chunks)
    expected = b"".join(chunks)
    cls = faultsock.NoSendmsgSocket if variant == "no-sendmsg" else faultsock.FaultySocket
    fs, peer = cls.pair()
    peer.setblocking(False)
    clock = vselect.VirtualClock()
    world = WriteWorld(clock, delays)
    fs.wscript = _resolve_script(script, total)
    nfaults = len(fs.wscript)
    old_iov = _constants.SC_IOV_MAX
    transport = None
    outcome: Any = None
    try:
        with vselect.virtual_time(clock):
            transport = SocketStreamTransport(fs, retry_interval=1.0, selector_factory=vselect.selector_factory(world))
            if variant == "iov-disabled":
                _constants.SC_IOV_MAX = 0
            t0 = clock.now
            try:
                with cpu_guard(20):
                    if variant == "endpoint":
                        ep = StreamEndpoint(transport, StreamProtocol(ChunkSerializer()), max_recv_size=1024)
                        ep.send_packet(list(chunks), timeout=None if T == math.inf else T)
                    else:
                        transport.send_all_from_iterable(iter(chunks), T)
                outcome = "ok"
            except TimeoutError:
                outcome = "timeout"
            except ConnectionError as exc:
                outcome = "conn"
            except faultsock.SpinDetected as exc:
                outcome = ("spin", str(exc))
            except HangDetected as exc:
                outcome = ("spin", str(exc))
            except Exception as exc:  # noqa: BLE001
                outcome = ("exc", f"{type(exc).__name__}: {exc}")
            elapsed = clock.now - t0
    finally:
        _constants.SC_IOV_MAX = old_iov
    got = b""
    try:
        while True:
            d = peer.recv(65536)
            if not d:
                break
            got += d
    except BlockingIOError:
        pass
    ncalls = fs.calls["send"] + fs.calls["sendmsg"]
    peer.close()
    try:
        fs.close()
    except OSError:
        pass
    if isinstance(outcome, tuple) and outcome[0] == "spin":
        return f"spin: {outcome[1]} (peer got {len(got)}/{total} bytes)"
    if isinstance(outcome, tuple):
        return f"unexpected exception {outcome[1]}"
    if outcome == "ok":
        ctx.count("returned_ok")
        if got != expected:
            return f"returned normally but peer received {got!r}, expected {expected!r}"
    else:
        ctx.count("timeouts_raised" if outcome == "timeout" else "connection_errors_raised")
        if not expected.startswith(got):
            return f"{outcome}: peer bytes {got!r} are not a prefix of {expected!r}"
        if outcome == "conn" and not any(a in ("reset", "epipe") for a in _resolve_script(script, total)):
            return "connection error raised although the socket script contains none"
        if outcome == "timeout":
            if T == math.inf:
                return "TimeoutError with an infinite timeout"
            if T == 0 and any(t is None or (t is not None and t > 0) for _, t in world.select_calls):
                return f"zero timeout but the selector was asked to wait: {world.select_calls}"
    if T != math.inf and elapsed > T + 0.05:
        return f"virtual time spent {elapsed} exceeds the timeout {T}"
    if ncalls > nfaults + total + len(chunks) + 8:
        return f"{ncalls} socket calls for {total} bytes, {len(chunks)} chunks, {nfaults} scripted faults"
    return None


def _count_shape(ctx, chunks, script, T, total):
    if chunks and not chunks[-1] and any(chunks):
        ctx.count("trailing_empty_chunk")
    if chunks and not chunks[0] and any(chunks):
        ctx.count("leading_empty_chunk")
    if chunks and not any(chunks):
        ctx.count("only_empty_chunks")
    if T == 0 and "eagain" in script:
        ctx.count("eagain_with_timeout_0")
    # partial write that ends exactly at a chunk boundary
    bounds = set(itertools.accumulate(len(c) for c in chunks))
    for a in _resolve_script(script, total):
        if isinstance(a, tuple) and a[1] in bounds and a[1] < total:
            ctx.count("partial_write_ends_at_chunk_boundary")
            break


def do_case(ctx, variant, chunks, script, delays, T, tag=None):
    total = sum(len(c) for c in chunks)
    _count_shape(ctx, chunks, script, T, total)
    ctx.count(f"variant:{variant}")
    nontrivial = len(chunks) >= 2 and any(a != "full" for a in script)
    ctx.case(nontrivial, variant, tuple(chunks), tuple(map(str, script)), tuple(delays), T)
    why = run_sync_case(ctx, variant, chunks, script, delays, T)
    if why:
        kind = "spin" if why.startswith("spin") else "bytes" if "peer" in why else "time" if "virtual time" in why or "zero timeout" in why or "infinite" in why else "calls" if "socket calls" in why else "other"
        shape = "trailing-empty" if (chunks and not chunks[-1]) else "other-shape"
        ctx.violation(
            f"{kind}:{variant}:{shape}" if kind == "spin" else f"{kind}:{variant}",
            f"[{variant}] chunks={chunks!r} script={script!r} delays={delays} timeout={T}: {why}",
            {"variant": variant, "chunks": [c.hex() for c in chunks], "script": script, "delays": delays, "timeout": "inf" if T == math.inf else T, "tag": tag},
        )


SYNC_VARIANTS = ["sendmsg", "no-sendmsg", "iov-disabled", "endpoint"]


# ------------------------------------------------------------------------------------------ other transports (exact bytes, termination)


def _rand_chunks(rng: random.Random) -> list[bytes]:
    n = rng.randint(1, 6)
    out = []
    for _ in range(n):
        # (occasionally one chunk well above every internal buffer size: 256 KiB receive buffers, 16 KiB TLS records)
        k = rng.choice([0, 0, 1, 3, 100, 5000, 70000]) if rng.random() > 0.06 else rng.choice([300_000, 700_000])
        out.append(bytes(rng.getrandbits(8) for _ in range(min(k, 64))) * (k // 64 + 1) if k else b"")
        out[-1] = out[-1][:k]
    return out


def run_async_variant(ctx, variant: str, rng: random.Random) -> str | None:
    import asyncio

    from easynetwork.lowlevel.api_async.backend._asyncio.backend import AsyncIOBackend

    from vlib import memtransport, tlspeer, vloop

    seqs = [_rand_chunks(rng) for _ in range(rng.randint(1, 3))]
    expected = b"".join(b"".join(c) for c in seqs)
    got = bytearray()
    st: dict = {}

    async def main(loop):
        loop.max_iterations = 300_000  # a scenario needs a few thousand iterations at most
        backend = AsyncIOBackend()
        if variant == "asyncio-adapter":
            c, s = netutil.tcp_pair(sndbuf=4096, rcvbuf=4096, nodelay=False)
            s.setblocking(False)
            tr = await backend.wrap_stream_socket(c)

            async def reader():
                lp = asyncio.get_running_loop()
                while True:
                    d = await lp.sock_recv(s, rng.choice([100, 4096, 65536]) if "blob" not in st else 65536)
                    if not d:
                        return
                    got.extend(d)
                    if rng.random() < 0.3 and ("blob" not in st or inner0.get_write_buffer_size() == 0):
                        st["reader_napping"] = True
                        await asyncio.sleep(rng.choice([0, 0.25]))
                        st["reader_napping"] = False

            inner0 = getattr(tr, "_AsyncioTransportStreamSocketAdapter__transport")
            loop.io_expected = lambda: inner0.get_write_buffer_size() > 0 and "reader_started" in st and not st.get("reader_napping")
            if rng.random() < 0.4:
                # a send blocked by a peer that does not read yet is cancelled / times out; once the peer reads again the
                # following sends must still terminate and arrive behind whatever the interrupted send had queued
                blob = bytes(rng.randrange(256) for _ in range(64)) * rng.choice([1000, 3000])
                st["blob"] = blob
                how = rng.choice(["move_on_after", "timeout", "task-cancel"])
                ctx.count(f"interrupted_send:{how}")
                if how == "move_on_after":
                    with backend.move_on_after(0.5):
                        await tr.send_all(blob)
                elif how == "timeout":
                    try:
                        with backend.timeout(0.5):
                            await tr.send_all_from_iterable([blob[:1000], blob[1000:]])
                    except TimeoutError:
                        pass
                else:
                    tk = asyncio.ensure_future(tr.send_all(blob))
                    await asyncio.sleep(0.5)
                    tk.cancel()
                    await asyncio.gather(tk, return_exceptions=True)
                st["interrupted_with_queued"] = inner0.get_write_buffer_size()
            st["reader_started"] = True
            rt = asyncio.ensure_future(reader())
            if "blob" in st and rng.random() < 0.5:
                # let the peer drain everything first: the transport is resumed while nobody waits in drain()
                for _ in range(400):
                    if inner0.get_write_buffer_size() == 0:
                        break
                    await asyncio.sleep(0.05)
                st["drained_before_next_send"] = inner0.get_write_buffer_size() == 0
            for chunks in seqs:
                if rng.random() < 0.5:
                    await tr.send_all_from_iterable(iter(chunks))
                else:
                    for ch in chunks:
                        await tr.send_all(ch)
                inner = getattr(tr, "_AsyncioTransportStreamSocketAdapter__transport")
                if inner.get_write_buffer_size() != 0:
                    st["queued"] = inner.get_write_buffer_size()
            await tr.aclose()
            await asyncio.wait_for(rt, 600)
            s.close()
        else:
            from easynetwork.lowlevel.api_async.transports.tls import AsyncTLSStreamTransport

            a, b = memtransport.stream_pair(backend)
            a.send_frag = rng.choice([1, 100, 4096, None]) if len(expected) < 8000 else rng.choice([1000, 4096, None])
            a.send_yield = rng.choice([0, 1, 2])
            a.recv_cap = rng.choice([1, 64, None]) if len(expected) < 8000 else rng.choice([512, None])
            peer = tlspeer.AsyncPeer(b, tlspeer.server_context(rng.choice(["1.2", "1.3"])), server_side=True)
            hs = asyncio.ensure_future(peer.handshake())
            t = await AsyncTLSStreamTransport.wrap(a, tlspeer.client_context("1.3") if False else _client_ctx_any(), server_hostname="localhost", handshake_timeout=1e6, shutdown_timeout=1e6)
            await hs
            rd = asyncio.ensure_future(peer.read_until_end())
            for chunks in seqs:
                if rng.random() < 0.7:
                    await t.send_all_from_iterable(iter(chunks))
                else:
                    for ch in chunks:
                        await t.send_all(ch)
            closer = asyncio.ensure_future(t.aclose())
            await rd
            await peer.unwrap()
            await closer
            got.extend(peer.plaintext_in)

    st["shape"] = "trailing-empty" if any(c and not c[-1] for c in seqs) else "other-shape"
    try:
        vloop.run(main)
    except vloop.Quiescent as exc:
        return f"deadlock: {exc}"
    except vloop.Spinning as exc:
        return f"spin [{st['shape']}]: {exc} (chunk sizes {[[len(c) for c in s_] for s_ in seqs]})"
    except Exception as exc:  # noqa: BLE001
        return f"unexpected {type(exc).__name__}: {exc}"
    if st.get("queued"):
        return f"send returned with {st['queued']} bytes still queued in user space"
    if "blob" in st:
        # the interrupted send may have delivered any prefix of its payload (asyncio flushes what it had queued)
        head = len(got) - len(expected)
        if head < 0 or head > len(st["blob"]) or bytes(got[:head]) != st["blob"][:head]:
            return f"after an interrupted send the peer received {len(got)} bytes: not (a prefix of the interrupted payload) + the {len(expected)} bytes of the later sends"
        got = got[head:]
        if st.get("drained_before_next_send"):
            ctx.count("send_after_resume_without_waiters")
    if bytes(got) != expected:
        return f"peer received {len(got)} bytes, expected {len(expected)} (first difference at {next((i for i in range(min(len(got), len(expected))) if got[i] != expected[i]), min(len(got), len(expected)))})"
    ctx.count("returned_ok")
    return None


def _client_ctx_any():
    import ssl

    from vlib import tlspeer

    ctx = ssl.SSLContext(ssl.PROTOCOL_TLS_CLIENT)
    ctx.load_verify_locations(tlspeer.CERT)
    return ctx


def run_sync_tls_variant(ctx, rng: random.Random) -> str | None:
    import selectors as _real_selectors

    from easynetwork.lowlevel.api_sync.transports.socket import SSLStreamTransport

    from vlib import tlspeer

    seqs = [_rand_chunks(rng) for _ in range(rng.randint(1, 3))]
    expected = b"".join(b"".join(c) for c in seqs)
    lsock, psock = netutil.tcp_pair()
    peer = tlspeer.PumpedPeer(psock, tlspeer.server_context(rng.choice(["1.2", "1.3"])), server_side=True, steps=[("handshake",), ("read",), ("unwrap",)])
    clock = vselect.VirtualClock()

    class W(vselect.World):
        def on_select(self, fileno, event, timeout):
            peer.pump()
            self.clock.advance(0.001)
            return True

    world = W(clock)
    why = None
    try:
        with vselect.virtual_time(clock):
            with cpu_guard(40):
                t = SSLStreamTransport(lsock, _client_ctx_any(), retry_interval=1.0, server_hostname="localhost", handshake_timeout=600, shutdown_timeout=5, selector_factory=vselect.selector_factory(world))
                for chunks in seqs:
                    t.send_all_from_iterable(iter(chunks), 600)
                    peer.pump()
                t.close()
                for _ in range(4):
                    peer.pump()
    except (Exception, HangDetected) as exc:  # noqa: BLE001
        why = f"unexpected {type(exc).__name__}: {exc}"
    finally:
        for s_ in (lsock, psock):
            try:
                s_.close()
            except OSError:
                pass
    if why:
        return why
    if bytes(peer.plaintext_in) != expected:
        return f"peer received {len(peer.plaintext_in)} bytes, expected {len(expected)}"
    ctx.count("returned_ok")
    return None


def plan(tier: str, seed: int) -> list[dict]:
    shards = []
    maxc, maxs = (3, 3) if tier == "quick" else (4, 4)
    k = 0
    for v in SYNC_VARIANTS:
        for ti, T in enumerate(TIMEOUTS):
            shards.append({"seed": seed * 1000 + k, "kind": "enum", "variant": v, "timeout_idx": ti, "maxc": maxc, "maxs": maxs, "random": 300 if tier == "quick" else 6000})
            k += 1
    for j in range(8):
        shards.append({"seed": seed * 1000 + 100 + j, "kind": "other", "n": 15 if tier == "quick" else 400})
    return shards


def run_shard(params: dict, ctx) -> None:
    rng = random.Random(params["seed"])
    if params.get("kind") == "other":
        for i in range(params["n"]):
            for v in ("asyncio-adapter", "async-tls", "sync-tls"):
                if ctx.should_stop(50):
                    return
                ctx.count(f"variant:{v}")
                why = run_sync_tls_variant(ctx, rng) if v == "sync-tls" else run_async_variant(ctx, v, rng)
                ctx.case(True, v, params["seed"], i)
                if why:
                    kind = "spin" if ("deadlock" in why or "CPU" in why or why.startswith("spin")) else "bytes" if "peer received" in why or "queued" in why else "other"
                    shape = ":trailing-empty" if "[trailing-empty]" in why else ""
                    ctx.violation(f"{kind}:{v}{shape}", f"[{v}] {why}", {"variant": v, "seed": params["seed"], "i": i, "other": True})
            # "fails with TimeoutError within its time budget" at client level: the budget also covers the wait for the send lock
            # (monitor shared with C11: TCPNetworkClient.send_packet behind a held lock, then a gated kernel buffer, virtual time)
            from checks import c11

            for _ in range(6):
                ctx.count("variant:client-behind-send-lock")
                c11.scenario_client_send_lock(ctx, rng, rng.choice([t for t in c11.TS if t is not None]), rng.choice(c11.RETRIES), [params["seed"], i, "c04"])
        return
    v = params["variant"]
    T = TIMEOUTS[params["timeout_idx"]]
    seqs = [list(s) for n in range(1, params["maxc"] + 1) for s in itertools.product(PIECES, repeat=n)]
    scripts = [list(s) for n in range(0, params["maxs"] + 1) for s in itertools.product(ACTIONS, repeat=n)]
    for chunks in seqs:
        if ctx.should_stop(200):
            break
        for script in scripts:
            delays = [rng.choice(DELAYS) for _ in range(len(script))]
            do_case(ctx, v, chunks, script, delays, T, "enum")
    # random longer scripts incl. connection faults
    for i in range(params["random"]):
        chunks = [rng.choice([b"", b"x", b"hello", bytes(rng.getrandbits(8) for _ in range(rng.randint(1, 40)))]) for _ in range(rng.randint(1, 6))]
        acts = ACTIONS + ["reset", "epipe", ("partial", 3), ("partial", 7)]
        script = [rng.choice(acts) for _ in range(rng.randint(0, 10))]
        delays = [rng.choice(DELAYS) for _ in range(len(script) + 2)]
        do_case(ctx, v, chunks, script, delays, T, ["rnd", params["seed"], i])
    ctx.sample({"variant": v, "timeout": str(T), "chunks": [c.hex() for c in seqs[7]], "script": scripts[9]})


def replay(witness: dict, ctx) -> None:
    if witness.get("kind") == "client-send-lock":
        tag = witness["tag"]  # [shard seed, iteration, "c04"]: re-run that shard prefix
        run_shard({"seed": tag[0], "kind": "other", "n": tag[1] + 1}, ctx)
        return
    if witness.get("other"):
        run_shard({"seed": witness["seed"], "kind": "other", "n": witness["i"] + 1}, ctx)
        return
    T = math.inf if witness["timeout"] == "inf" else witness["timeout"]
    chunks = [bytes.fromhex(c) for c in witness["chunks"]]
    script = [tuple(a) if isinstance(a, list) else a for a in witness["script"]]
    do_case(ctx, witness["variant"], chunks, script, witness["delays"], T, "replay")
